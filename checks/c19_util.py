"""Helpers for checks/c19.py: sharded line-protocol runs, UBSan report extraction, python-side oracles."""
import os, re, struct, subprocess, threading
from fractions import Fraction
from . import lib

ENV = {'ASAN_OPTIONS': 'detect_leaks=0:abort_on_error=0:allocator_may_return_null=1', 'UBSAN_OPTIONS': 'print_stacktrace=0'}


def _run_chunk(exe, lines, timeout):
    """Run one process over lines; on a crash at line k record CRASH and go on with the rest. Returns (replies, stderr)."""
    replies, errs, start, guard = [], [], 0, 0
    while start < len(lines):
        e = lib._limit_env(ENV)
        try:
            r = subprocess.run([exe], input='\n'.join(lines[start:]) + '\n', stdout=subprocess.PIPE, stderr=subprocess.PIPE,
                               text=True, errors='replace', env=e, timeout=timeout)
            out, err = r.stdout, r.stderr
        except subprocess.TimeoutExpired:
            out, err = '', '[timeout after %ss]' % timeout
        res = out.split('\n')
        if res and res[-1] == '': res.pop()
        res = res[:len(lines) - start]
        replies.extend(res); errs.append(err)
        done = start + len(res)
        if done >= len(lines): break
        replies.append('CRASH ' + ' '.join(err.strip().split('\n')[:10])[:1200])
        start = done + 1
        guard += 1
        if guard > 50:
            replies.extend(['CRASH (too many crashes)'] * (len(lines) - len(replies)))
            break
    return replies[:len(lines)], '\n'.join(errs)


def par_lines(exe, lines, nproc=16, timeout=1200):
    """Feed lines to nproc processes of exe (contiguous shards). Returns (replies in order, list of (shard_lines, stderr))."""
    if not lines: return [], []
    n = max(1, min(nproc, (len(lines) + 199) // 200))
    size = (len(lines) + n - 1) // n
    shards = [lines[i:i + size] for i in range(0, len(lines), size)]
    results = [None] * len(shards)

    def work(i):
        results[i] = _run_chunk(exe, shards[i], timeout)
    th = [threading.Thread(target=work, args=(i,)) for i in range(len(shards))]
    for t in th: t.start()
    for t in th: t.join()
    replies, errs = [], []
    for sh, (r, e) in zip(shards, results):
        replies.extend(r); errs.append((sh, e))
    return replies, errs


def compile_objs(ctx, srcs, tag, san, defs, extra, opt='-O1'):
    """compile /repo-relative sources to objects under build/<pid>/<tag>/ in parallel; `extra` goes after the sanitizer flags"""
    d = os.path.join(ctx.bdir, tag); os.makedirs(d, exist_ok=True)
    outs = [os.path.join(d, s.replace('/', '_')[:-2] + '.o') for s in srcs]
    errs = []

    def work(s, o):
        try: ctx.cc([os.path.join(lib.REPO, s)], o, san=san, defs=defs, extra=extra, link=False, opt=opt)
        except Exception as e: errs.append(e)
    th = [threading.Thread(target=work, args=(s, o)) for s, o in zip(srcs, outs)]
    for t in th: t.start()
    for t in th: t.join()
    if errs: raise errs[0]
    return outs


UB_RE = re.compile(r'^(\S+?):(\d+):(\d+): runtime error: (.*)$', re.M)


def ubsan_reports(stderr):
    """distinct (file basename, line, message) UBSan reports in a stderr text"""
    seen, out = set(), []
    for m in UB_RE.finditer(stderr):
        k = (os.path.basename(m.group(1)), int(m.group(2)))
        if k in seen: continue
        seen.add(k); out.append((k[0], k[1], m.group(4)))
    return out


def find_trigger(exe, lines, fname, lineno, limit=24):
    """Bisect `lines` for one line that makes exe print a UBSan report at fname:lineno. Returns the line or None."""
    def hits(ls):
        _, err = _run_chunk(exe, ls, 600)
        return any(f == fname and l == lineno for f, l, _ in ubsan_reports(err))
    cur = list(lines)
    if not cur or not hits(cur): return None
    steps = 0
    while len(cur) > 1 and steps < limit:
        mid = len(cur) // 2
        a, b = cur[:mid], cur[mid:]
        if hits(a): cur = a
        elif hits(b): cur = b
        else: return cur[0]      # needs both halves (should not happen: reports are per input)
        steps += 1
    return cur[0]


def hx(b):
    b = bytes(b)
    return b.hex() if b else '-'


def unhx(s):
    return b'' if s == '-' else bytes.fromhex(s)


# ------------------------------------------------------------------ integer types
TYPES = {
    'u8': (0, 2**8 - 1), 'u16': (0, 2**16 - 1), 'u32': (0, 2**32 - 1), 'u64': (0, 2**64 - 1),
    'i8': (-2**7, 2**7 - 1), 'i16': (-2**15, 2**15 - 1), 'i32': (-2**31, 2**31 - 1), 'i64': (-2**63, 2**63 - 1),
}
INT_RE = re.compile(rb'^(-?)([0-9]*)(.*)$', re.S)


def split_int_text(t):
    """(neg, digits, rest) of a byte string, as the property reads an integer text"""
    m = INT_RE.match(t)
    return bool(m.group(1)), m.group(2), m.group(3)


# ------------------------------------------------------------------ floats
FLOAT_RE = re.compile(r'^(-?)(\d+)(?:\.(\d+))?(?:[eE]([+-]?\d+))?$')


def dec_parts(text):
    """decimal text -> (neg, m, e) with value = (-1)^neg * m * 10^e, or None if not a plain decimal"""
    m = FLOAT_RE.match(text)
    if not m: return None
    frac = m.group(3) or ''
    e = int(m.group(4) or '0') - len(frac)
    return (1 if m.group(1) else 0, int(m.group(2) + frac), e)


def d2bits(d): return struct.unpack('<Q', struct.pack('<d', d))[0]
def bits2d(b): return struct.unpack('<d', struct.pack('<Q', b))[0]
def f2bits(f): return struct.unpack('<I', struct.pack('<f', f))[0]
def bits2f(b): return struct.unpack('<f', struct.pack('<I', b))[0]
def finite32(b): return (b & 0x7f800000) != 0x7f800000
def finite64(b): return (b & 0x7ff0000000000000) != 0x7ff0000000000000


def py_rounds_to(bits, width, neg, m, e):
    """independent re-implementation of Num/FloatOracle.v rounds_to with Fractions (cross-check of the extracted oracle)"""
    if width == 64: p, eb = 53, 11
    else: p, eb = 24, 8
    fb = p - 1
    sign = (bits >> (fb + eb)) & 1
    be = (bits >> fb) & ((1 << eb) - 1)
    fr = bits & ((1 << fb) - 1)
    if be == (1 << eb) - 1: return False
    bias = (1 << (eb - 1)) - 1
    if be == 0: M, E = fr, 1 - bias - fb
    else: M, E = (1 << fb) + fr, be - bias - fb
    if sign != neg or m < 0: return False
    T = Fraction(m) * Fraction(10) ** e
    u = Fraction(2) ** (E - 2)
    lo = (4 * M - (1 if (fr == 0 and be >= 2) else 2)) * u
    hi = (4 * M + 2) * u
    return (lo < T < hi) or ((T == lo or T == hi) and M % 2 == 0)
