"""Helpers for checks/c16.py: Coq build fallback, python oracles for the property statement, sorter-codegen expectation."""
import os, re, fcntl, time
from . import lib

COQ_FILES = ['Sort/SortModel.v', 'Sort/HeapProofs.v', 'Sort/ListProofs.v', 'Sort/SearchProofs.v', 'Sort/SimProofs.v', 'Sort/SortTheorems.v',
             'Properties/Properties_C16.v']
NF = 2 ** 64 - 1


def check_theorems(ctx):
    """ctx.check_theorems(), but when coq/Makefile was generated before the Sort/ files existed (no rule for them),
    compile them directly with coqc in dependency order under the development lock and then ask for Print Assumptions.
    Accounting (obligations/discharged/theorems) is the same as lib.Ctx.check_theorems."""
    conf = os.path.join(lib.COQ, 'Makefile.conf')
    known = os.path.exists(conf) and 'Sort/SortModel.v' in open(conf).read() and 'Properties/Properties_C16.v' in open(conf).read()
    if known:
        ok = ctx.check_theorems()
        stale = (not ok) and 'No rule to make target' in (getattr(ctx, 'coq_log', '') or '') and not getattr(ctx, 'broken', {}).get('files')
        if not stale:
            return ok
        # coq/Makefile is stale with respect to some OTHER area's files (renamed / removed while agents work concurrently):
        # check this property's files directly instead
        ctx.notes.append('coq/Makefile stale (No rule to make target ...): Properties_C16 checked with coqc directly')
        ctx.obligations -= len(ctx.theorem_names('Properties_C16.v'))
        ctx.broken = {}
    mod = 'Properties_C16'
    names = ctx.theorem_names(mod + '.v')
    ctx.obligations += len(names)
    lock = open(os.path.join(lib.COQ, '.lock'), 'w'); fcntl.flock(lock, fcntl.LOCK_EX)
    try:
        rebuilt = False
        for f in COQ_FILES:
            v = os.path.join(lib.COQ, f); vo = v + 'o'
            if rebuilt or not os.path.exists(vo) or os.path.getmtime(vo) < os.path.getmtime(v):
                cmd = 'timeout 900 coqc -Q . Flatcc %s' % f
                ctx.checker_cmds.append('cd coq && ' + cmd)
                rc, out = lib.sh(cmd, cwd=lib.COQ, timeout=930)
                if rc != 0:
                    ctx.broken = {'files': [f], 'log_tail': out[-3000:]}
                    return False
                rebuilt = True
    finally:
        fcntl.flock(lock, fcntl.LOCK_UN); lock.close()
    v = os.path.join(ctx.bdir, 'assum_%s.v' % mod)
    with open(v, 'w') as f:
        f.write('From Flatcc.Properties Require Import %s.\n' % mod)
        for n in names:
            f.write('Goal True. idtac "@@ %s". exact I. Qed.\nPrint Assumptions %s.\n' % (n, n))
    rc, o = lib.sh(['coqc', '-Q', lib.COQ, 'Flatcc', v], timeout=300, cwd=ctx.bdir)
    if rc != 0:
        ctx.broken = {'files': [], 'log_tail': o[-3000:]}
        return False
    parts = re.split(r'@@ (\S+)\n', o)
    got = {}
    for i in range(1, len(parts) - 1, 2):
        got[parts[i]] = ' '.join(parts[i + 1].split())
    for n in names:
        ctx.theorems.append({'theorem': n, 'assumptions': got.get(n, '?')})
        if n in got: ctx.discharged += 1
    ctx.checker_cmds.append('coqc -Q coq Flatcc build/%s/assum_%s.v  (Print Assumptions for every theorem)' % (ctx.pid, mod))
    return ctx.discharged == ctx.obligations


# ------------------------------------------------------------------ the property's notion of key order / equality
def str_n_cmp(v, s):
    """sign of __flatbuffers_string_n_cmp(v, s, len(s)): bytewise over the common prefix (stopping at a NUL), then lengths.
    For strings without NUL bytes this is the ordinary bytewise order."""
    n = min(len(v), len(s))
    for i in range(n):
        if v[i] != s[i]: return -1 if v[i] < s[i] else 1
        if v[i] == 0: break
    return (len(v) > len(s)) - (len(v) < len(s))


def c_str(b):
    return b.split(b'\0')[0]


def str_c_cmp(v, s):
    a, b = c_str(v), c_str(s)
    return (a > b) - (a < b)


def num_cmp(a, b):
    return (a > b) - (a < b)


def first_match(seq, eq, b, e):
    e = min(e, len(seq))
    for i in range(b, e) if b < e else ():
        if eq(seq[i]): return i
    return NF


def last_match(seq, eq, b, e):
    e = min(e, len(seq))
    if b >= e: return NF
    for i in range(e - 1, b - 1, -1):
        if eq(seq[i]): return i
    return NF


def is_sorted(keys, cmp):
    return all(cmp(keys[i], keys[i + 1]) <= 0 for i in range(len(keys) - 1))


# ------------------------------------------------------------------ expectation for the generated recursive sorters
class Schema:
    """A tiny schema AST: types = list of dicts
         {'kind': 'table'|'struct'|'union'|'enum', 'name': str, 'fields': [ {name, type, vec, attrs(set)} ] | 'members': [table names]}
       field type: scalar name | 'string' | type name."""
    def __init__(self, types):
        self.types = types
        self.by_name = {t['name']: t for t in types}

    def text(self):
        out = ['attribute "sorted";', 'attribute "primary_key";']
        for t in self.types:
            if t['kind'] == 'enum':
                out.append('enum %s:%s { A = 0, B = 1, C = 5 }' % (t['name'], t['base']))
            elif t['kind'] == 'union':
                out.append('union %s { %s }' % (t['name'], ', '.join(t['members'])))
            else:
                fs = []
                for f in t['fields']:
                    ty = '[%s]' % f['type'] if f['vec'] else f['type']
                    at = (' (%s)' % ', '.join(sorted(f['attrs']))) if f['attrs'] else ''
                    fs.append('%s:%s%s;' % (f['name'], ty, at))
                out.append('%s %s { %s }' % (t['kind'], t['name'], ' '.join(fs)))
        return '\n'.join(out) + '\n'

    def sortable(self):
        """names of tables / unions that need a sorter: a table with a live (non-deprecated) vector marked sorted, or with a
        live member (table / union, single or vector) whose type needs one; a union with a member table that needs one."""
        s = set()
        changed = True
        while changed:
            changed = False
            for t in self.types:
                if t['name'] in s: continue
                ok = False
                if t['kind'] == 'table':
                    for f in t['fields']:
                        if 'deprecated' in f['attrs']: continue
                        if 'sorted' in f['attrs']: ok = True
                        if f['type'] in self.by_name and self.by_name[f['type']]['kind'] in ('table', 'union') and f['type'] in s: ok = True
                elif t['kind'] == 'union':
                    ok = any(m in s for m in t['members'])
                if ok:
                    s.add(t['name']); changed = True
        return s

    SCALAR_PREFIX = {'ubyte': 'uint8', 'byte': 'int8', 'ushort': 'uint16', 'short': 'int16', 'uint': 'uint32', 'int': 'int32',
                     'ulong': 'uint64', 'long': 'int64', 'float': 'float', 'double': 'double', 'bool': 'bool'}

    def expected_sorters(self):
        """dict name -> list of expected statements (canonical tuples) in the generated T_sort / U_sort."""
        s = self.sortable()
        exp = {}
        for t in self.types:
            if t['name'] not in s: continue
            body = []
            if t['kind'] == 'union':
                for m in t['members']:
                    if m in s: body.append(('case', m))
            else:
                for f in t['fields']:
                    if 'deprecated' in f['attrs']: continue
                    ft = self.by_name.get(f['type'])
                    if ft is None or ft['name'] not in s: continue
                    if ft['kind'] == 'table':
                        body.append(('table_vector_elements' if f['vec'] else 'table_field', f['name'], ft['name']))
                    elif ft['kind'] == 'union':
                        body.append(('union_vector_elements' if f['vec'] else 'union_field', f['name'], ft['name']))
                for f in t['fields']:
                    if 'deprecated' in f['attrs'] or 'sorted' not in f['attrs']: continue
                    if f['type'] in self.SCALAR_PREFIX: vt = 'flatbuffers_' + self.SCALAR_PREFIX[f['type']]
                    elif f['type'] == 'string': vt = 'flatbuffers_string'
                    else: vt = f['type']
                    body.append(('vector_field', f['name'], vt))
            exp[t['name']] = body
        return exp


def parse_generated_sorters(txt):
    """dict name -> list of canonical tuples found in the generated reader."""
    got = {}
    for m in re.finditer(r'static void (\w+)_sort\((\w+)_mutable_(table|union)_t \w+\)\n\{(.*?)\n\}\n', txt, flags=re.S):
        name, kind, body = m.group(1), m.group(3), m.group(4)
        items = []
        if kind == 'union':
            for c in re.finditer(r'case \w+?_(\w+): (\w+)_sort\(u\.value\); break;', body):
                items.append(('case', c.group(2)))
        else:
            for c in re.finditer(r'__flatbuffers_sort_(\w+)\((\w+), (\w+), (\w+), t\)', body):
                what, n, f, ty = c.groups()
                if n != name: items.append(('WRONGTABLE', n))
                what = {'vector_field': 'vector_field', 'table_field': 'table_field', 'union_field': 'union_field',
                        'table_vector_field_elements': 'table_vector_elements',
                        'union_vector_field_elements': 'union_vector_elements'}.get(what, what)
                items.append((what, f, ty))
        got[name] = items
    return got
