"""Helpers for checks/c18.py: python transcription of the refmap hash (and its inverse, Murmur3 fmix64 is a bijection),
operation-sequence generators, the dictionary oracle."""
M64 = (1 << 64) - 1
C1, C2 = 0xff51afd7ed558ccd, 0xc4ceb9fe1a85ec53
C1I, C2I = pow(C1, -1, 1 << 64), pow(C2, -1, 1 << 64)
I32 = [0, 1, -1, 2, 42, -10, 2147483647, -2147483648, 1000, 65536]


def rhash(src, seed):
    x = (src ^ seed) & M64
    x ^= x >> 33; x = (x * C1) & M64
    x ^= x >> 33; x = (x * C2) & M64
    x ^= x >> 33
    return x


def rhash_inv(h, seed):
    """the key whose hash is h"""
    x = h
    x ^= x >> 33; x = (x * C2I) & M64
    x ^= x >> 33; x = (x * C1I) & M64
    x ^= x >> 33
    return (x ^ seed) & M64


class Seq:
    """An operation sequence; tokens in the protocol of harness/refmap_diff.c."""
    def __init__(self, klass, hm='m'):
        self.klass, self.hm, self.ops = klass, hm, []

    def ins(self, src, ref, a=1): self.ops.append('i%d,%d,%d' % (src, ref, a))
    def find(self, src): self.ops.append('f%d' % src)
    def resize(self, c, a=1): self.ops.append('r%d,%d' % (c, a))
    def reset(self): self.ops.append('z')
    def clear(self): self.ops.append('c')
    def dump(self): self.ops.append('d')
    def line(self, upto=None): return 'seq %s %s' % (self.hm, ' '.join(self.ops if upto is None else self.ops[:upto]))


def ref_of(rng):
    return rng.choice(I32 + [rng.randint(-2147483648, 2147483647), rng.randint(1, 1000)])


def colliding_keys(rng, seed, n, bits, home=None):
    """n distinct non-null keys whose hashes agree in the low `bits` bits: the same home slot in every table of up to
    2^bits buckets (the hash is a bijection, so the high bits differ)"""
    home = rng.getrandbits(bits) if home is None else home
    out = set()
    while len(out) < n:
        k = rhash_inv(((rng.getrandbits(64 - bits) << bits) | home) & M64, seed)
        if k: out.add(k)
    return list(out)


def top_keys(seed, n):
    """keys whose hashes are the n largest size_t values: a cluster at the end of every table, and k + i wraps 2^64"""
    return [k for k in (rhash_inv(M64 - j, seed) for j in range(n)) if k]


def gen_small(rng, seed, nops, dumps=True):
    """random mix over a small key pool (null key, neighbours, collisions)"""
    s = Seq('small_random')
    pool = [0, 1, 2, 8, 16, 4096, 4104, M64, M64 - 1, 1 << 63, 1 << 32]
    pool += colliding_keys(rng, seed, rng.randint(2, 12), 10) + top_keys(seed, rng.randint(0, 6))
    pool += [rng.getrandbits(rng.choice([8, 16, 32, 48, 64])) for _ in range(rng.randint(0, 30))]
    big = rng.random() < 0.3
    if big: pool += [rng.getrandbits(48) | 8 for _ in range(rng.randint(30, 400))]
    for _ in range(nops):
        x = rng.random()
        if x < 0.50: s.ins(rng.choice(pool), ref_of(rng), 0 if rng.random() < 0.08 else 1)
        elif x < 0.82: s.find(rng.choice(pool) if rng.random() < 0.9 else rng.getrandbits(64))
        elif x < 0.90:
            c = rng.choice([0, 1, 4, 5, 6, 10, 11, 12, 22, 23, 44, 45, 89, 90, 179, 358, 716, 1000, rng.randint(0, 5000)])
            s.resize(c, 0 if rng.random() < 0.25 else 1)
        elif x < 0.94: s.reset()
        elif x < 0.96: s.clear()
        elif dumps: s.dump()
    s.dump()
    return s


def gen_collide(rng, seed, n, bits, mode='same'):
    """same: all keys share one home slot (probe chains of length n, across resizes);
    end: the shared home is one of the last slots (the chain wraps to slot 0);
    top: hashes are the largest size_t values (k + i wraps 2^64) plus keys homed at slot 0..3"""
    s = Seq('collide_' + mode)
    if mode == 'top':
        keys = top_keys(seed, min(n, 64))
        rng.shuffle(keys)
        others = sum([colliding_keys(rng, seed, 3, bits, home=h) for h in range(4)], [])
    else:
        home = ((1 << bits) - 1 - rng.randint(0, 3)) if mode == 'end' else rng.getrandbits(bits)
        keys = colliding_keys(rng, seed, n, bits, home=home)
        others = colliding_keys(rng, seed, max(2, n // 4), bits, home=(home + 1) % (1 << bits))
    n = len(keys)
    for i, k in enumerate(keys):
        s.ins(k, i + 1)
        if i % 7 == 3: s.find(rng.choice(keys[:i + 1]))
        if i % 11 == 5: s.ins(rng.choice(others), -(i + 1))
        if i % 13 == 6: s.find(rng.choice(others))
        if i % 17 == 8: s.ins(rng.choice(keys[:i + 1]), rng.choice([0, 7, -7]))      # replace, also by a zero reference
        if i == n // 2: s.resize(4 * n, rng.choice([0, 1])); s.dump()
    for k in keys: s.find(k)
    for k in others: s.find(k)
    s.dump()
    s.reset(); s.find(keys[0]); s.resize(0); s.ins(keys[0], 5); s.find(keys[0]); s.find(keys[1]); s.dump()
    return s


def gen_growth(rng, seed, n, hm, finds):
    """n distinct keys (addresses 8 apart from a random base, as the clone of a buffer produces), periodic finds,
    a refusal at every growth step followed by a retry, replace of old keys, shrink after reset"""
    s = Seq('growth_%d' % n, hm)
    base = rng.getrandbits(40) << 4
    stride = rng.choice([1, 4, 8, 16, 24])
    keys = [base + stride * i for i in range(1, n + 1)]
    s.find(keys[0] if keys else 1)
    for i, k in enumerate(keys):
        a = 1
        s.ins(k, (i % 2147483647) + 1, 0 if rng.random() < 0.002 else 1)
        if s.ops[-1].endswith(',0'): s.ins(k, (i % 2147483647) + 1, 1)
        if finds and i % finds == 0:
            s.find(keys[rng.randrange(i + 1)]); s.find(k + 1)
    for k in (keys if n <= 2000 else rng.sample(keys, 2000)): s.find(k)
    s.find(0); s.ins(0, 77); s.find(0)
    if keys:
        s.ins(keys[0], 0); s.find(keys[0]); s.ins(keys[0], -3); s.find(keys[0])
    s.resize(0); s.resize(2 * n, 0); s.resize(2 * n + 1, 1)
    for k in (keys if n <= 300 else rng.sample(keys, 300)): s.find(k)
    s.reset()
    for k in (keys[:50]): s.find(k)
    s.resize(0)
    for k in keys[:20]: s.ins(k, 9)
    for k in keys[:25]: s.find(k)
    s.clear(); s.find(keys[0] if keys else 1)
    if n <= 4000: s.dump()
    return s


def gen_refuse_boundaries(rng, seed):
    """calloc refuses exactly at each growth boundary (8 -> 16 -> ... -> 4096), then answers"""
    s = Seq('refuse_boundary')
    keys = [rng.getrandbits(47) * 2 + 2 for _ in range(3000)]
    keys = list(dict.fromkeys(keys))
    for i, k in enumerate(keys):
        s.ins(k, i + 1, 0)        # refused whenever a growth is needed: must change nothing
        s.find(k)
        s.ins(k, i + 1, 1)
        if i % 97 == 0: s.find(keys[rng.randrange(i + 1)])
    for k in rng.sample(keys, 200): s.find(k)
    return s


def gen_stream(rng, seed, nops):
    """unstructured stream: any token with any operand (counts large only with a refusing allocator)"""
    s = Seq('stream')
    pool = [rng.getrandbits(64) for _ in range(rng.randint(1, 200))] + [0]
    for _ in range(nops):
        x = rng.random()
        if x < 0.4: s.ins(rng.choice(pool), rng.randint(-2147483648, 2147483647), rng.choice([0, 1, 1, 1]))
        elif x < 0.7: s.find(rng.choice(pool))
        elif x < 0.8: s.resize(rng.choice([rng.randint(0, 100000), rng.getrandbits(rng.randint(1, 54))]), 0)
        elif x < 0.88: s.resize(rng.randint(0, 20000), 1)
        elif x < 0.93: s.reset()
        elif x < 0.96: s.clear()
        else: s.dump()
    return s


def dict_oracle(seq, replies):
    """Check the implementation's replies against a python dict (the property statement itself).
    Returns None or (op index, kind, message)."""
    d = {}
    cnt, bk = 0, 0
    for i, (tok, rep) in enumerate(zip(seq.ops, replies)):
        t = tok[0]
        try:
            if t == 'i':
                src, ref, a = [int(x) for x in tok[1:].split(',')]
                refused = rep.startswith('F')
                ret, c2, b2 = [int(x) for x in rep.lstrip('F').split('/')]
                if refused:
                    if a == 1: return (i, 'insert', 'insert reports a refused allocation although calloc was answering')
                    if ret != 0 or (c2, b2) != (cnt, bk): return (i, 'insert-refused', 'refused growth changed the map or did not return not_found: %s' % rep)
                else:
                    if ret != ref: return (i, 'insert', 'insert(%d, %d) returned %d' % (src, ref, ret))
                    if src != 0: d[src] = ref
                    if c2 != len(d): return (i, 'count', 'count %d after insert, %d distinct keys stored' % (c2, len(d)))
                    if src != 0 and not (b2 > c2): return (i, 'full', 'count %d reaches buckets %d: no empty slot left' % (c2, b2))
                    if src == 0 and (c2, b2) != (cnt, bk): return (i, 'insert-null', 'insert of the null key changed the map: %s' % rep)
                    cnt, bk = c2, b2
            elif t == 'f':
                src = int(tok[1:])
                if int(rep) != d.get(src, 0):
                    return (i, 'find', 'find(%d) = %s, last stored reference is %s' % (src, rep, d.get(src, 'none (not_found 0)')))
            elif t == 'r':
                c, a = [int(x) for x in tok[1:].split(',')]
                refused = rep.startswith('F')
                ret, c2, b2 = [int(x) for x in rep.lstrip('F').split('/')]
                if refused:
                    if a == 1: return (i, 'resize', 'resize reports a refused allocation although calloc was answering')
                    if ret != -1 or (c2, b2) != (cnt, bk): return (i, 'resize-refused', 'refused resize changed the map or did not return -1: %s' % rep)
                else:
                    if ret != 0 or c2 != len(d): return (i, 'resize', 'resize(%d) -> %s with %d keys stored' % (c, rep, len(d)))
                    if not (b2 > c2): return (i, 'full', 'count %d reaches buckets %d after resize' % (c2, b2))
                    cnt, bk = c2, b2
            elif t == 'z':
                _, c2, b2 = rep.split('/')
                d.clear()
                if int(c2) != 0 or int(b2) != bk: return (i, 'reset', 'reset -> %s (buckets were %d)' % (rep, bk))
                cnt = 0
            elif t == 'c':
                d.clear()
                if rep != 'c/0/0': return (i, 'clear', 'clear -> %s' % rep)
                cnt, bk = 0, 0
            elif t == 'd':
                if not rep.startswith('D'): return (i, 'dump', 'bad dump ' + rep[:40])
                ent = [] if rep == 'D-' else [tuple(int(x) for x in e.split(':')) for e in rep[1:].split(';')]
                got = {s: r for _, s, r in ent}
                if len(ent) != len(got) or got != d:
                    return (i, 'dump', 'table content differs from the stored keys (%d slots occupied, %d keys stored)' % (len(ent), len(d)))
        except ValueError:
            return (i, 'reply', 'unparsable reply %r to %s' % (rep[:60], tok))
    return None


def run_capped(H, ls, max_crashes=3, what='the harness'):
    """like lib.run_harness_resilient, but gives up after a few crashes / hangs (the harnesses kill themselves with
    SIGALRM when one request takes more than ~10 s, e.g. a probe loop over a full table); the rest is 'SKIP'"""
    replies, start, crashes = [], 0, 0
    while start < len(ls):
        rc, res, err = H.run(ls[start:], timeout=600)
        replies.extend(res[:len(ls) - start])
        done = start + len(res)
        if done >= len(ls): break
        if rc in (-14, 142): why = 'no reply within the time limit (SIGALRM): a loop does not terminate'
        else: why = ' '.join(err.strip().split('\n')[:12])[:1500]
        replies.append('CRASH ' + why)
        start = done + 1; crashes += 1
        if crashes >= max_crashes:
            replies.extend(['SKIP'] * (len(ls) - len(replies))); break
    return replies[:len(ls)]


def model_line(seq, irep):
    """the request for the extracted model: the same operations with the implementation's observed growth behaviour as oracle
    (F = allocation refused, otherwise the bucket count after the operation)"""
    out = []
    for tok, rep in zip(seq.ops, irep):
        t = tok[0]
        if t == 'i':
            src, ref, a = tok[1:].split(',')
            out.append('i%s,%s,%s' % (src, ref, 'F' if rep.startswith('F') else rep.split('/')[2]))
        elif t == 'r':
            c, a = tok[1:].split(',')
            out.append('r%s,%s' % (c, 'F' if rep.startswith('F') else rep.split('/')[2]))
        else:
            out.append(tok)
    return 'seq %s %s' % (seq.hm, ' '.join(out))


def compare_reply(tok, a, b):
    """model reply a vs implementation reply b on what the property speaks about. Returns (same, diagnostic)"""
    t = tok[0]
    if t in 'ir':
        return a == '/'.join(b.split('/')[:2]), None          # [F]ret/count ; the bucket count is the oracle, not compared
    if t in 'zc':
        return a == '/'.join(b.split('/')[:2]), None
    if t == 'd':
        if a == b: return True, None
        pa = sorted(e.split(':', 1)[1] for e in a[1:].split(';')) if a != 'D-' else []
        pb = sorted(e.split(':', 1)[1] for e in b[1:].split(';')) if b != 'D-' else []
        return pa == pb, 'layout'
    return a == b, None


def reference_policy_diff(seq, irep, consts):
    """diagnostic: first operation where the observed bucket count differs from what the transcribed policy of refmap.c
    (count >= buckets * n / 256 -> resize(2 * count); growth from the minimum size) would choose"""
    n, mn = consts.get('RM_LOAD_N', 179), consts.get('RM_MIN_BUCKETS', 8)

    def grow(c):
        b = mn
        while c >= b * n // 256: b *= 2
        return b
    cnt = bk = 0
    for k, (tok, rep) in enumerate(zip(seq.ops, irep)):
        t = tok[0]
        if t in 'ir' and not rep.startswith('F'):
            f = rep.split('/')
            c2, b2 = int(f[1]), int(f[2])
            if t == 'i':
                src = int(tok[1:].split(',')[0])
                want = bk if src == 0 else (grow(2 * cnt) if cnt >= bk * n // 256 else bk)
            else:
                want = grow(max(int(tok[1:].split(',')[0]), cnt))
            if b2 != want:
                return ('diagnostic only: the growth policy differs from the transcribed reference policy of refmap.c (Properties_C18p): operation %d `%s` of a %s sequence '
                        'leaves %d buckets, the reference policy %d; the map theorems hold for every policy satisfying the side condition' % (k, tok, seq.klass, b2, want))
            cnt, bk = c2, b2
        elif t in 'zc':
            f = rep.split('/')
            cnt, bk = int(f[1]), int(f[2])
    return None
