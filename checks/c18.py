"""C18 - Clone and pick preserve content and sharing; the reference map is a map.

1. T1: translators/refmap_probe.c -> coq/Generated/RefmapConsts.v (minimum buckets, load factor numerator as the C
   function computes it, seed, not_found); re-check Properties_C18.vo (refmap_refines for every hash function and every
   operation sequence, clone_shares); re-extract + rebuild modelrun_refmap when the constants moved.
2. Reference map correspondence: harness/refmap_diff.c (src/runtime/refmap.c included, calloc made to refuse on
   request) against the extracted model on operation sequences (0 .. 10^5 keys, engineered home-slot collisions through
   the inverse of the hash, null keys, zero references, manual resizes / shrinks, refusals at every growth step,
   unstructured streams), complete results + (count, buckets) + table layout; independently every reply is checked
   against a python dict (the property statement).
3. Clone correspondence: harness/clone_diff.c builds DAG-shaped source buffers for a schema with every field kind with
   the freshly generated builder, verifies, clones / picks with and without a reference map, verifies the copy and
   compares a canonical value dump and a sharing dump (object identity numbering) of source and copy.
"""
import os, re, time, concurrent.futures as cf
from . import lib
from . import c18_util as U
from . import c18_clone as CL

AREA_FILES = ['Generated/RefmapConsts.v', 'Refmap/RefmapModel.v', 'Refmap/RefmapProofs.v', 'Refmap/CloneProofs.v',
              'Properties/Properties_C18.v', 'Extract/Extract_refmap.v']


def gen_refmap_consts(ctx):
    exe = os.path.join(ctx.bdir, 'refmap_probe')
    ctx.cc([os.path.join(lib.ROOT, 'translators', 'refmap_probe.c')], exe, incs=['-I%s/src/runtime' % lib.REPO], opt='-O1', defs=['-DNDEBUG'])
    rc, out, err = lib.sh2([exe])
    if rc != 0:
        return None, err
    changed = ctx.write_generated('Generated/RefmapConsts.v', out)
    d = {}
    for m in re.finditer(r'Definition (\S+) : Z := (-?\d+)\.', out): d[m.group(1)] = int(m.group(2))
    d['_changed'] = changed
    return d, ''


def listed_in_coqproject(f='Refmap/RefmapModel.v'):
    try:
        return f in open(os.path.join(lib.COQ, '_CoqProject')).read().split()
    except OSError:
        return False


def direct_build(ctx, files):
    """Fallback while the area is not yet listed in coq/_CoqProject (bin/setup regenerates it): compile the stale files
    of this area in dependency order with coqc. Returns (ok, log)."""
    import fcntl
    log = ''
    lock = open(os.path.join(lib.COQ, '.lock'), 'w'); fcntl.flock(lock, fcntl.LOCK_EX)
    try:
        stale = False
        for f in files:
            v = os.path.join(lib.COQ, f); vo = v + 'o'
            if not stale and os.path.exists(vo) and os.path.getmtime(vo) >= os.path.getmtime(v): continue
            stale = True
            rc, out = lib.sh(['coqc', '-Q', '.', 'Flatcc', f], cwd=lib.COQ, timeout=900)
            log += out
            if rc != 0: return False, log
    finally:
        fcntl.flock(lock, fcntl.LOCK_UN); lock.close()
    return True, log


def rebuild_model(ctx):
    """constants moved: extraction output and driver are stale"""
    ex = os.path.join(lib.COQ, 'Extract', 'Extract_refmap.vo')
    if os.path.exists(ex): os.remove(ex)
    if listed_in_coqproject('Extract/Extract_refmap.v'):
        ok, out = ctx.coq_make(['Extract/Extract_refmap.vo'])
    else:
        ok, out = direct_build(ctx, ['Generated/RefmapConsts.v', 'Refmap/RefmapModel.v', 'Extract/Extract_refmap.v'])
    if not ok: raise lib.CheckError('re-extraction of the refmap model failed:\n' + out[-2000:])
    rc, out = lib.sh([os.path.join(lib.ROOT, 'bin', 'build_modelrun'), 'refmap'], timeout=900)
    if rc != 0: raise lib.CheckError('build_modelrun refmap failed:\n' + out[-2000:])


def par_map(fn, items, workers=14):
    with cf.ThreadPoolExecutor(max_workers=workers) as ex:
        return list(ex.map(fn, items))


# ---------------------------------------------------------------------------------------------------- part 2: the map
def refmap_part(ctx, consts, theorems_ok):
    rng = ctx.rng
    seed = consts['RM_SEED']
    exe = ctx.cc([os.path.join(lib.ROOT, 'harness', 'refmap_diff.c')], os.path.join(ctx.bdir, 'refmap_diff'), san=True,
                 defs=['-DNDEBUG'], incs=['-I%s/src/runtime' % lib.REPO, '-I' + os.path.join(lib.ROOT, 'harness')])
    H = lib.Harness(exe)

    # ---- the hash itself: C vs extracted vs native-in-driver vs python transcription
    hkeys = [0, 1, 2, 8, 4096, U.M64, U.M64 - 1, 1 << 63, 1 << 32, (1 << 32) - 1, seed] + [rng.getrandbits(64) for _ in range(150)] \
        + [rng.getrandbits(b) for b in range(1, 64)]
    hl = ['hash %d' % k for k in hkeys]
    rc, hres, herr = H.run(hl)
    mres = ctx.run_model('refmap', hl)
    nres = ctx.run_model('refmap', ['n' + l for l in hl])
    hash_same = True
    for k, a, b, c in zip(hkeys, hres, mres, nres):
        ctx.count('hash %d' % k, klass='hash')
        if not (a == b == c == str(U.rhash(k, seed))):
            hash_same = False
            ctx.notes.append('hash function differs from the transcription at key %d: C %s, model %s, python %d. The theorems hold for '
                             'every hash function; table layouts are not compared in this run, engineered collisions are not collisions.' % (k, a, b, U.rhash(k, seed)))
            break

    # ---- sequences
    T = ctx.thorough
    seqs = []
    for _ in range(6000 if T else 260): seqs.append(U.gen_small(rng, seed, rng.choice([20, 60, 150, 400])))
    for n in ([0, 1, 2, 4, 5, 6, 7, 10, 11, 12, 22, 23, 44, 45, 46, 89, 90, 91, 100, 179, 180, 358, 716, 717, 1000, 1433] + ([2866, 5000] if T else [])):
        seqs.append(U.gen_growth(rng, seed, n, 'm', rng.choice([1, 3, 10])))
    for n in ((10000, 30000, 100000, 100000, 100000, 45824, 45825, 91648, 91649, 183296, 183297, 250000) if T else (10000, 100000)):
        seqs.append(U.gen_growth(rng, seed, n, 'n', 7))
    if T:
        for n in (5000, 10000, 20000): seqs.append(U.gen_growth(rng, seed, n, 'm', 5))
    for mode in ('same', 'end', 'top'):
        for n, bits in (((40, 6), (150, 12), (500, 20), (900, 24), (1500, 30), (64, 40)) if T else ((40, 6), (150, 12), (400, 20))):
            seqs.append(U.gen_collide(rng, seed, n, bits, mode))
    for _ in range(6 if T else 1): seqs.append(U.gen_refuse_boundaries(rng, seed))
    for _ in range(1500 if T else 60): seqs.append(U.gen_stream(rng, seed, rng.choice([30, 200, 1000])))

    if ctx.replay_in:
        import json
        rp = json.load(open(ctx.replay_in))
        if 'sequence' in rp:
            s = U.Seq('replay'); s.ops = rp['sequence'].split()[2:]; s.hm = rp['sequence'].split()[1]; seqs = [s]
        else:
            seqs = seqs[:3]

    lines = [s.line() for s in seqs]
    order = sorted(range(len(seqs)), key=lambda i: -len(seqs[i].ops))   # longest first, spread over workers
    t0 = time.time()

    # ---- phase 1: the implementation. Its replies carry what the model takes as growth ORACLE (refusal flag, bucket count after
    # every insert / resize); when, and to which size, the table grows is not part of the property and is not compared.
    chunks = [order[k::14] for k in range(14)]
    ires = {}
    with cf.ThreadPoolExecutor(max_workers=14) as ex:
        futs = [ex.submit(lambda c=c: U.run_capped(H, [lines[i] for i in c])) for c in chunks]
        for c, f in zip(chunks, futs):
            for i, r in zip(c, f.result()): ires[i] = r

    # ---- phase 2: the extracted model with the observed oracle
    mlines = {}
    for i, s in enumerate(seqs):
        impl = ires[i]
        if impl == 'SKIP' or impl.startswith('CRASH'): continue
        irep = impl.split(' ')
        if len(irep) != len(s.ops): continue
        mlines[i] = U.model_line(s, irep)

    def run_model_group(g):
        try:
            return ctx.run_model('refmap', [mlines[i] for i in g]) if g else []
        except lib.CheckError as e:
            return ['MODELFAIL ' + str(e)[:200]] * len(g)
    midx = [i for i in order if i in mlines]
    long_i = [[i] for i in midx if len(seqs[i].ops) > 3000]
    short_i = [i for i in midx if len(seqs[i].ops) <= 3000]
    groups = long_i + [short_i[k::10] for k in range(10)]
    mres = {}
    with cf.ThreadPoolExecutor(max_workers=15) as ex:
        futs = [ex.submit(run_model_group, g) for g in groups]
        for g, f in zip(groups, futs):
            for i, r in zip(g, f.result()): mres[i] = r
    ctx.log('refmap: %d sequences, %d operations, impl then model in %.1fs' % (len(seqs), sum(len(s.ops) for s in seqs), time.time() - t0))

    nops = 0
    policy_note = layout_note = None
    for i, s in enumerate(seqs):
        ctx.count(lines[i], klass=s.klass, n=1)
        nops += len(s.ops)
        impl = ires[i]
        if impl == 'SKIP': continue
        if impl.startswith('CRASH'):
            ctx.violation('refmap-crash:%s' % s.klass, 'sanitizer report / crash in refmap.c on an operation sequence: ' + impl[:300],
                          {'sequence': lines[i] if len(lines[i]) < 200000 else lines[i][:200000], 'stderr': impl})
            continue
        irep = impl.split(' ')
        bad = U.dict_oracle(s, irep)
        if len(irep) != len(s.ops) and bad is None:
            bad = (min(len(irep), len(s.ops)) - 1, 'reply', 'harness answered %d of %d operations' % (len(irep), len(s.ops)))
        if bad is not None:
            k, kind, msg = bad
            ctx.violation('refmap-map:%s' % kind,
                          'the reference map does not behave as a map: %s (operation %d `%s` of a %s sequence)' % (msg, k, s.ops[k], s.klass),
                          {'sequence': s.line(k + 1), 'failing_op_index': k, 'impl_replies_tail': ' '.join(irep[max(0, k - 5):k + 1])})
            continue
        if mres[i].startswith('MODELFAIL'):
            ctx.violation('corr:refmap-model-run', 'the extracted model failed on a sequence: ' + mres[i], {'sequence': lines[i][:200000]}); continue
        mrep = mres[i].split(' ')
        for k, (tok, a, b) in enumerate(zip(s.ops, mrep, irep)):
            same, diag = U.compare_reply(tok, a, b)
            if diag == 'layout' and hash_same and layout_note is None:
                layout_note = 'diagnostic only: table layout (slot numbers) differs from the model at operation %d of a %s sequence although the stored (key, reference) set is equal' % (k, s.klass)
            if same: continue
            if a.startswith('POLICY'):
                cnt, mb = a.split('/')[1:3]
                nb = b.lstrip('F').split('/')[2]
                ctx.violation('refmap-policy:%s' % tok[0],
                              'growth policy violates the side condition under which the map is proved correct: after operation %d `%s` of a %s sequence the implementation has %s buckets '
                              'with %s keys stored before the operation (needs a power of two, more buckets than keys and one slot left empty after an insert, otherwise a probe for an absent key never ends)'
                              % (k, tok, s.klass, nb, cnt), {'sequence': s.line(k + 1), 'model': a, 'impl': b})
            elif 'NONE' in a:
                ctx.violation('corr:refmap-model-loop', 'a model loop ran out of steps (the theorems exclude this) at operation %d `%s`' % (k, tok), {'sequence': s.line(k + 1), 'model_line': mlines[i][:100000]})
            else:
                ctx.violation('corr:refmap:%s' % tok[0], 'model and implementation disagree at operation %d `%s` of a %s sequence on a value the property speaks about (return value, count, stored set): model %s, implementation %s; '
                              'the python dict oracle accepts the implementation' % (k, tok, s.klass, a[:80], b[:80]), {'sequence': s.line(k + 1), 'model': a, 'impl': b})
            break
        if policy_note is None:
            policy_note = U.reference_policy_diff(s, irep, consts)
    if policy_note: ctx.notes.append(policy_note)
    if layout_note: ctx.notes.append(layout_note)
    ctx.cov['refmap_operations'] = nops
    ctx.sample({'refmap_sequence': lines[0][:300], 'model_line_with_oracle': mlines.get(0, '')[:300], 'model': mres.get(0, '')[:200], 'impl': ires[0][:200]})
    big = max(range(len(seqs)), key=lambda i: len(seqs[i].ops))
    ctx.sample({'largest_sequence_class': seqs[big].klass, 'operations': len(seqs[big].ops), 'final_replies': ires[big][-120:]})

    # ---- abstract clone model with the extracted refmap as memo vs the obvious set semantics (ties part B to part A)
    cl_lines, want = [], []
    for _ in range(600 if T else 60):
        n = rng.randint(1, 40)
        ch = {v: sorted(rng.sample(range(v + 1, n + 1), min(n - v, rng.choice([0, 0, 1, 2, 3, 5])))) if v < n else [] for v in range(1, n + 1)}
        for v in ch:
            if ch[v] and rng.random() < 0.3: ch[v] = ch[v] + [rng.choice(ch[v])]          # the same child twice
        order_em, seen = [], set()

        def visit(v):
            if v in seen: return
            for c in ch[v]: visit(c)
            seen.add(v); order_em.append(v)
        visit(1)
        ids = {v: 4096 + 8 * v for v in ch}
        g = ';'.join('%d:%s' % (ids[v], ','.join(str(ids[c]) for c in ch[v])) for v in ch)
        cl_lines.append('clone %d %d %s' % (ids[1], n + 2, g))
        want.append('%d %d %s' % (len(order_em), len(order_em), ','.join(str(ids[v]) for v in order_em)))
    got = ctx.run_model('refmap', cl_lines)
    for l, w, g in zip(cl_lines, want, got):
        ctx.count(l, klass='abstract_clone_model')
        if w != g:
            ctx.violation('corr:clone-model', 'extracted memoized clone over the extracted refmap emits %s, post-order without repetition is %s' % (g[:100], w[:100]), {'model_line': l})

    # ---- observation outside the property's quantifier (reported as a note): resize with an absurd count
    rc, r, err = H.run(['bigresize %d' % (1 << 56)], timeout=30)
    if r and r[0] == 'TIMEOUT':
        ctx.notes.append('flatcc_refmap_resize(refmap, 2^56) does not return (buckets wraps to 0 in the growth loop); the reference policy model (Properties_C18p) yields None there and '
                         'requires resize requests below 179 * 2^48; the map theorems do not depend on it. Outside the property (address sets up to 10^5 keys).')


def check_module(ctx, mod=None):
    """ctx.check_theorems for one Properties module; success is judged on this module alone (the counters are cumulative)"""
    o0, d0 = ctx.obligations, ctx.discharged
    ctx.check_theorems(prop_module=mod) if mod else ctx.check_theorems()
    return ctx.obligations > o0 and (ctx.discharged - d0) == (ctx.obligations - o0)


def run(ctx):
    consts, err = gen_refmap_consts(ctx)
    if consts is None:
        ctx.broken_obligation('T1:refmap_probe', 'the load factor test of refmap.c is no longer `count >= buckets * n / 256`: ' + err)
        consts = {'RM_SEED': 0x2f693b52, '_changed': False}
    if consts.get('_changed'):
        ctx.log('Generated/RefmapConsts.v changed: theorems re-checked, model re-extracted')
    if listed_in_coqproject():
        ok = check_module(ctx)
    else:
        okb, blog = direct_build(ctx, AREA_FILES[:5])
        ok = check_module(ctx) if okb else False
        if not okb: ctx.broken = {'files': re.findall(r'File "([^"]+)", line (\d+)', blog), 'log_tail': blog[-3000:]}
    if not ok:
        ctx.broken_obligation('Properties_C18.vo', getattr(ctx, 'broken', {}))
    # SEPARATE obligation: the growth policy of refmap.c as transcribed (above / grow / resize(2 * count)) satisfies the side condition
    # of the map theorems. It is the only part that depends on the generated constants and on the exact policy; the map theorems hold
    # for every growth oracle. A failure here is reported without failing input (the correspondence below still looks for one:
    # refmap-policy / refmap-map:full / non-terminating probe).
    if not listed_in_coqproject('Properties/Properties_C18p.v'):
        # bin/setup has not seen the files yet: compile them directly (always: their .vo must match the current RefmapModel.vo)
        for f in ('Refmap/RefmapPolicy.vo', 'Properties/Properties_C18p.vo'):
            if os.path.exists(os.path.join(lib.COQ, f)): os.remove(os.path.join(lib.COQ, f))
        okd, blog = direct_build(ctx, ['Refmap/RefmapPolicy.v', 'Properties/Properties_C18p.v'])
        okp = check_module(ctx, 'Properties_C18p') if okd else False
        if not okd: ctx.broken = {'files': re.findall(r'File "([^"]+)", line (\d+)', blog), 'log_tail': blog[-3000:]}
    else:
        okp = check_module(ctx, 'Properties_C18p')
    if not okp:
        ctx.broken_obligation('Properties_C18p.vo:reference-growth-policy', getattr(ctx, 'broken', {}))
    # clone half on the models (Refmap/CloneModel.v, CloneContent.v): well typed script, copy decodes / reads equal, verifier model accepts
    if os.path.exists(os.path.join(lib.COQ, 'Properties', 'Properties_C18b.v')) and listed_in_coqproject('Properties/Properties_C18b.v'):
        okb = check_module(ctx, 'Properties_C18b')
        if not okb:
            ctx.broken_obligation('Properties_C18b.vo', getattr(ctx, 'broken', {}))
    if os.path.exists(os.path.join(lib.COQ, 'Properties', 'Properties_C18c.v')) and listed_in_coqproject('Properties/Properties_C18c.v'):
        # T5: refmap.c hash and load-factor test regenerated from the clang AST and re-proved equal to RefmapModel
        from . import c01c_util
        okl, msg = c01c_util.regen_refmap_leaves(ctx)
        ctx.log('T5 refmap leaves: %s' % (msg if not okl else 'regenerated, Properties_C18c re-checked'))
        if not okl:
            w = c01c_util.LAST.get('witnesses') or []
            # The map theorems (RefmapModel.v: `Variable hash : Z -> Z`, ANY function) do not depend on which hash is used, and the
            # translated leaf is a total function of the source address by construction. A hash that differs from the pinned
            # MurmurHash3 finalizer changes the placement only: recorded, not an alarm. Every other leaf stays an obligation.
            wh = [x for x in w if x.get('leaf') == '_flatcc_refmap_hash']
            w = [x for x in w if x.get('leaf') != '_flatcc_refmap_hash']
            if wh:
                ctx.notes.append('T5: _flatcc_refmap_hash differs from the pinned model hash (%s); the refmap theorems are parametric in the hash '
                                 'function, the operation-level correspondence below decides' % str(wh[0].get('args')))
                ctx.cov['refmap_hash_differs_from_pinned'] = True
            if w: ctx.violation('leaf:' + w[0]['leaf'], msg, w[0])
            elif not wh: ctx.broken_obligation('Properties_C18c.vo', dict(c01c_util.LAST, message=msg))
    mr = os.path.join(lib.ROOT, 'build', 'modelrun_refmap')
    src_m = [os.path.join(lib.ROOT, 'ocaml', 'refmap', f) for f in ('model.ml', 'driver.ml')]
    stale = not os.path.exists(mr) or any(os.path.exists(f) and os.path.getmtime(f) > os.path.getmtime(mr) for f in src_m)
    if consts.get('_changed') or stale:
        try:
            rebuild_model(ctx)
        except lib.CheckError as e:
            ctx.broken_obligation('extraction:refmap', str(e)[-1500:])
    refmap_part(ctx, consts, ok)
    CL.clone_part(ctx)
    ctx.trusted = lib.DEFAULT_TRUSTED + [
        'translators/refmap_probe.c (T1: minimum buckets, load factor numerator evaluated through the C function, seed)',
        'native Int64 Murmur3 finalizer in ocaml/refmap/driver.ml for the 10^4..10^5 key sequences (compared with the extracted refmap_hash and the C on samples; the theorems hold for every hash function)',
        'harness/clone_diff.c dump functions (value dump and sharing dump of source and copy are produced by the same code)']
    ctx.assumptions = ['64-bit size_t, little-endian host',
                       'the growth behaviour (refusal, bucket count after each insert / resize) is taken from the implementation as an oracle; the map theorems hold for every oracle, '
                       'an oracle violating the side condition (power of two, more buckets than keys, one empty slot after an insert) is reported as refmap-policy',
                       'reference policy theorem (Properties_C18p) only: calloc refuses requests above 2^52 items, manual resize requests below 179 * 2^48',
                       'source buffers of clone are verified buffers (acyclic), source addresses are not reused while the map lives']
    ctx.finish_args = dict(
        rule='refmap: one case = one operation sequence from init (classes: small_random over pools with null key / colliding / top-of-range hashes, '
             'growth_N for N in 0..10^5 around every load threshold with refusals and retries, collide_same/end/top with keys computed through the inverse hash, '
             'refuse_boundary, stream); return values, refusal reports, count and the stored (key, reference) set compared with the extracted model run under the observed growth oracle, and with a python dict; bucket counts, growth moments and slot layout are diagnostics (notes). '
             'clone: one case = (DAG program, operation, refmap on/off); verifier verdict, value dump and sharing dump compared. distinct = distinct request lines',
        explanation='theorems of Properties_C18 (map, every growth oracle), C18p (reference growth policy, regenerated constants) and C18b (clone code model) re-checked; extracted model = implementation on every operation for what the property speaks about; '
                    'python dict oracle = the property statement for the map; clone: copy verifies, reads equal, shares exactly what the source shares when a map is active')
