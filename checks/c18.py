"""C18 - Clone and pick preserve content and sharing; the reference map is a map.

1. T1: translators/refmap_probe.c -> coq/Generated/RefmapConsts.v (minimum buckets, load factor numerator as the C
   function computes it, seed, not_found); re-check Properties_C18.vo (refmap_refines for every hash function and every
   operation sequence, clone_shares); re-extract + rebuild modelrun_refmap when the constants moved.
2. Reference map correspondence: harness/refmap_diff.c (src/runtime/refmap.c included, calloc made to refuse on
   request) against the extracted model on operation sequences (0 .. 10^5 keys, engineered home-slot collisions through
   the inverse of the hash, null keys, zero references, manual resizes / shrinks, refusals at every growth step,
   unstructured streams), complete results + (count, buckets) + table layout; independently every reply is checked
   against a python dict (the property statement).
3. Clone correspondence: harness/clone_diff.c builds DAG-shaped source buffers for a schema with every field kind with
   the freshly generated builder, verifies, clones / picks with and without a reference map, verifies the copy and
   compares a canonical value dump and a sharing dump (object identity numbering) of source and copy.
"""
import os, re, time, concurrent.futures as cf
from . import lib
from . import c18_util as U
from . import c18_clone as CL

AREA_FILES = ['Generated/RefmapConsts.v', 'Refmap/RefmapModel.v', 'Refmap/RefmapProofs.v', 'Refmap/CloneProofs.v',
              'Properties/Properties_C18.v', 'Extract/Extract_refmap.v']


def gen_refmap_consts(ctx):
    exe = os.path.join(ctx.bdir, 'refmap_probe')
    ctx.cc([os.path.join(lib.ROOT, 'translators', 'refmap_probe.c')], exe, incs=['-I%s/src/runtime' % lib.REPO], opt='-O1', defs=['-DNDEBUG'])
    rc, out, err = lib.sh2([exe])
    if rc != 0:
        return None, err
    changed = ctx.write_generated('Generated/RefmapConsts.v', out)
    d = {}
    for m in re.finditer(r'Definition (\S+) : Z := (-?\d+)\.', out): d[m.group(1)] = int(m.group(2))
    d['_changed'] = changed
    return d, ''


def listed_in_coqproject():
    try:
        return 'Refmap/RefmapModel.v' in open(os.path.join(lib.COQ, '_CoqProject')).read()
    except OSError:
        return False


def direct_build(ctx, files):
    """Fallback while the area is not yet listed in coq/_CoqProject (bin/setup regenerates it): compile the stale files
    of this area in dependency order with coqc. Returns (ok, log)."""
    import fcntl
    log = ''
    lock = open(os.path.join(lib.COQ, '.lock'), 'w'); fcntl.flock(lock, fcntl.LOCK_EX)
    try:
        stale = False
        for f in files:
            v = os.path.join(lib.COQ, f); vo = v + 'o'
            if not stale and os.path.exists(vo) and os.path.getmtime(vo) >= os.path.getmtime(v): continue
            stale = True
            rc, out = lib.sh(['coqc', '-Q', '.', 'Flatcc', f], cwd=lib.COQ, timeout=900)
            log += out
            if rc != 0: return False, log
    finally:
        fcntl.flock(lock, fcntl.LOCK_UN); lock.close()
    return True, log


def rebuild_model(ctx):
    """constants moved: extraction output and driver are stale"""
    ex = os.path.join(lib.COQ, 'Extract', 'Extract_refmap.vo')
    if os.path.exists(ex): os.remove(ex)
    if listed_in_coqproject():
        ok, out = ctx.coq_make(['Extract/Extract_refmap.vo'])
    else:
        ok, out = direct_build(ctx, ['Generated/RefmapConsts.v', 'Refmap/RefmapModel.v', 'Extract/Extract_refmap.v'])
    if not ok: raise lib.CheckError('re-extraction of the refmap model failed:\n' + out[-2000:])
    rc, out = lib.sh([os.path.join(lib.ROOT, 'bin', 'build_modelrun'), 'refmap'], timeout=900)
    if rc != 0: raise lib.CheckError('build_modelrun refmap failed:\n' + out[-2000:])


def par_map(fn, items, workers=14):
    with cf.ThreadPoolExecutor(max_workers=workers) as ex:
        return list(ex.map(fn, items))


# ---------------------------------------------------------------------------------------------------- part 2: the map
def refmap_part(ctx, consts, theorems_ok):
    rng = ctx.rng
    seed = consts['RM_SEED']
    exe = ctx.cc([os.path.join(lib.ROOT, 'harness', 'refmap_diff.c')], os.path.join(ctx.bdir, 'refmap_diff'), san=True,
                 defs=['-DNDEBUG'], incs=['-I%s/src/runtime' % lib.REPO, '-I' + os.path.join(lib.ROOT, 'harness')])
    H = lib.Harness(exe)

    # ---- the hash itself: C vs extracted vs native-in-driver vs python transcription
    hkeys = [0, 1, 2, 8, 4096, U.M64, U.M64 - 1, 1 << 63, 1 << 32, (1 << 32) - 1, seed] + [rng.getrandbits(64) for _ in range(150)] \
        + [rng.getrandbits(b) for b in range(1, 64)]
    hl = ['hash %d' % k for k in hkeys]
    rc, hres, herr = H.run(hl)
    mres = ctx.run_model('refmap', hl)
    nres = ctx.run_model('refmap', ['n' + l for l in hl])
    hash_same = True
    for k, a, b, c in zip(hkeys, hres, mres, nres):
        ctx.count('hash %d' % k, klass='hash')
        if not (a == b == c == str(U.rhash(k, seed))):
            hash_same = False
            ctx.notes.append('hash function differs from the transcription at key %d: C %s, model %s, python %d. The theorems hold for '
                             'every hash function; table layouts are not compared in this run, engineered collisions are not collisions.' % (k, a, b, U.rhash(k, seed)))
            break

    # ---- sequences
    T = ctx.thorough
    seqs = []
    for _ in range(6000 if T else 260): seqs.append(U.gen_small(rng, seed, rng.choice([20, 60, 150, 400])))
    for n in ([0, 1, 2, 4, 5, 6, 7, 10, 11, 12, 22, 23, 44, 45, 46, 89, 90, 91, 100, 179, 180, 358, 716, 717, 1000, 1433] + ([2866, 5000] if T else [])):
        seqs.append(U.gen_growth(rng, seed, n, 'm', rng.choice([1, 3, 10])))
    for n in ((10000, 30000, 100000, 100000, 100000, 45824, 45825, 91648, 91649, 183296, 183297, 250000) if T else (10000, 100000)):
        seqs.append(U.gen_growth(rng, seed, n, 'n', 7))
    if T:
        for n in (5000, 10000, 20000): seqs.append(U.gen_growth(rng, seed, n, 'm', 5))
    for mode in ('same', 'end', 'top'):
        for n, bits in (((40, 6), (150, 12), (500, 20), (900, 24), (1500, 30), (64, 40)) if T else ((40, 6), (150, 12), (400, 20))):
            seqs.append(U.gen_collide(rng, seed, n, bits, mode))
    for _ in range(6 if T else 1): seqs.append(U.gen_refuse_boundaries(rng, seed))
    for _ in range(1500 if T else 60): seqs.append(U.gen_stream(rng, seed, rng.choice([30, 200, 1000])))

    if ctx.replay_in:
        import json
        rp = json.load(open(ctx.replay_in))
        if 'sequence' in rp:
            s = U.Seq('replay'); s.ops = rp['sequence'].split()[2:]; s.hm = rp['sequence'].split()[1]; seqs = [s]
        else:
            seqs = seqs[:3]

    lines = [s.line() for s in seqs]
    order = sorted(range(len(seqs)), key=lambda i: -len(seqs[i].ops))   # longest first, spread over workers
    t0 = time.time()

    def run_model_one(i):
        try:
            return ctx.run_model('refmap', [lines[i]])[0]
        except lib.CheckError as e:
            return 'MODELFAIL ' + str(e)[:200]

    def run_impl_chunk(idx):
        return U.run_capped(H, [lines[i] for i in idx])

    chunks = [order[k::12] for k in range(12)]
    with cf.ThreadPoolExecutor(max_workers=15) as ex:
        # group the many short sequences per model process, the long ones alone
        long_i = [i for i in order if len(seqs[i].ops) > 3000]
        short_i = [i for i in order if len(seqs[i].ops) <= 3000]
        sgroups = [short_i[k::10] for k in range(10)]
        fut_long = {i: ex.submit(run_model_one, i) for i in long_i}
        fut_short = [ex.submit(lambda g=g: ctx.run_model('refmap', [lines[i] for i in g]) if g else []) for g in sgroups]
        fut_impl = [ex.submit(run_impl_chunk, c) for c in chunks]
        mres = {}
        for i, f in fut_long.items(): mres[i] = f.result()
        for g, f in zip(sgroups, fut_short):
            for i, r in zip(g, f.result()): mres[i] = r
        ires = {}
        for c, f in zip(chunks, fut_impl):
            for i, r in zip(c, f.result()): ires[i] = r
    ctx.log('refmap: %d sequences, %d operations, model+impl in %.1fs' % (len(seqs), sum(len(s.ops) for s in seqs), time.time() - t0))

    nops = 0
    for i, s in enumerate(seqs):
        ctx.count(lines[i], klass=s.klass, n=1)
        nops += len(s.ops)
        impl = ires[i]
        if impl == 'SKIP': continue
        if impl.startswith('CRASH'):
            ctx.violation('refmap-crash:%s' % s.klass, 'sanitizer report / crash in refmap.c on an operation sequence: ' + impl[:300],
                          {'sequence': lines[i] if len(lines[i]) < 200000 else lines[i][:200000], 'stderr': impl})
            continue
        irep = impl.split(' ')
        bad = U.dict_oracle(s, irep)
        if len(irep) != len(s.ops) and bad is None:
            bad = (min(len(irep), len(s.ops)) - 1, 'reply', 'harness answered %d of %d operations' % (len(irep), len(s.ops)))
        if bad is not None:
            k, kind, msg = bad
            ctx.violation('refmap-map:%s' % kind,
                          'the reference map does not behave as a map: %s (operation %d `%s` of a %s sequence)' % (msg, k, s.ops[k], s.klass),
                          {'sequence': s.line(k + 1), 'failing_op_index': k, 'impl_replies_tail': ' '.join(irep[max(0, k - 5):k + 1])})
            continue
        mrep = mres[i].split(' ')
        if mres[i].startswith('MODELFAIL'):
            ctx.violation('corr:refmap-model-run', 'the extracted model failed on a sequence: ' + mres[i], {'sequence': lines[i][:200000]}); continue
        if mrep != irep:
            k = next((j for j, (a, b) in enumerate(zip(mrep, irep)) if a != b), min(len(mrep), len(irep)))
            tok = s.ops[k] if k < len(s.ops) else '?'
            a, b = (mrep[k] if k < len(mrep) else '-'), (irep[k] if k < len(irep) else '-')
            if tok == 'd' and not hash_same: continue          # layout under another hash function: not constrained
            if 'NONE' in a:
                what = 'model loop ran out of steps (probe or growth loop that the theorems prove terminating)'
            else: what = 'model %s, implementation %s' % (a[:80], b[:80])
            ctx.violation('corr:refmap:%s' % tok[0], 'model and implementation disagree at operation %d `%s` of a %s sequence: %s; '
                          'the python dict oracle accepts the implementation, so this is a change of policy (growth / layout), not of the map semantics'
                          % (k, tok, s.klass, what), {'sequence': s.line(k + 1), 'model': a, 'impl': b})
    ctx.cov['refmap_operations'] = nops
    ctx.sample({'refmap_sequence': lines[0][:300], 'model': mres[0][:200], 'impl': ires[0][:200]})
    big = max(range(len(seqs)), key=lambda i: len(seqs[i].ops))
    ctx.sample({'largest_sequence_class': seqs[big].klass, 'operations': len(seqs[big].ops), 'final_replies': ires[big][-120:]})

    # ---- abstract clone model with the extracted refmap as memo vs the obvious set semantics (ties part B to part A)
    cl_lines, want = [], []
    for _ in range(600 if T else 60):
        n = rng.randint(1, 40)
        ch = {v: sorted(rng.sample(range(v + 1, n + 1), min(n - v, rng.choice([0, 0, 1, 2, 3, 5])))) if v < n else [] for v in range(1, n + 1)}
        for v in ch:
            if ch[v] and rng.random() < 0.3: ch[v] = ch[v] + [rng.choice(ch[v])]          # the same child twice
        order_em, seen = [], set()

        def visit(v):
            if v in seen: return
            for c in ch[v]: visit(c)
            seen.add(v); order_em.append(v)
        visit(1)
        ids = {v: 4096 + 8 * v for v in ch}
        g = ';'.join('%d:%s' % (ids[v], ','.join(str(ids[c]) for c in ch[v])) for v in ch)
        cl_lines.append('clone %d %d %s' % (ids[1], n + 2, g))
        want.append('%d %d %s' % (len(order_em), len(order_em), ','.join(str(ids[v]) for v in order_em)))
    got = ctx.run_model('refmap', cl_lines)
    for l, w, g in zip(cl_lines, want, got):
        ctx.count(l, klass='abstract_clone_model')
        if w != g:
            ctx.violation('corr:clone-model', 'extracted memoized clone over the extracted refmap emits %s, post-order without repetition is %s' % (g[:100], w[:100]), {'model_line': l})

    # ---- observation outside the property's quantifier (reported as a note): resize with an absurd count
    rc, r, err = H.run(['bigresize %d' % (1 << 56)], timeout=30)
    if r and r[0] == 'TIMEOUT':
        ctx.notes.append('flatcc_refmap_resize(refmap, 2^56) does not return (buckets wraps to 0 in the growth loop); the model yields None there '
                         'and the theorems require resize requests below 179 * 2^48. Outside the property (address sets up to 10^5 keys).')


def run(ctx):
    consts, err = gen_refmap_consts(ctx)
    if consts is None:
        ctx.broken_obligation('T1:refmap_probe', 'the load factor test of refmap.c is no longer `count >= buckets * n / 256`: ' + err)
        consts = {'RM_SEED': 0x2f693b52, '_changed': False}
    if consts.get('_changed'):
        ctx.log('Generated/RefmapConsts.v changed: theorems re-checked, model re-extracted')
    if listed_in_coqproject():
        ok = ctx.check_theorems()
    else:
        okb, blog = direct_build(ctx, AREA_FILES[:5])
        ok = ctx.check_theorems() if okb else False
        if not okb: ctx.broken = {'files': re.findall(r'File "([^"]+)", line (\d+)', blog), 'log_tail': blog[-3000:]}
    if not ok:
        ctx.broken_obligation('Properties_C18.vo', getattr(ctx, 'broken', {}))
    # clone half on the models (Refmap/CloneModel.v, CloneContent.v): well typed script, copy decodes / reads equal, verifier model accepts
    if os.path.exists(os.path.join(lib.COQ, 'Properties', 'Properties_C18b.v')) and listed_in_coqproject():
        okb = ctx.check_theorems(prop_module='Properties_C18b')
        if not okb:
            ctx.broken_obligation('Properties_C18b.vo', getattr(ctx, 'broken', {}))
    if consts.get('_changed') or not os.path.exists(os.path.join(lib.ROOT, 'build', 'modelrun_refmap')):
        try:
            rebuild_model(ctx)
        except lib.CheckError as e:
            ctx.broken_obligation('extraction:refmap', str(e)[-1500:])
    refmap_part(ctx, consts, ok)
    CL.clone_part(ctx)
    ctx.trusted = lib.DEFAULT_TRUSTED + [
        'translators/refmap_probe.c (T1: minimum buckets, load factor numerator evaluated through the C function, seed)',
        'native Int64 Murmur3 finalizer in ocaml/refmap/driver.ml for the 10^4..10^5 key sequences (compared with the extracted refmap_hash and the C on samples; the theorems hold for every hash function)',
        'harness/clone_diff.c dump functions (value dump and sharing dump of source and copy are produced by the same code)']
    ctx.assumptions = ['64-bit size_t, little-endian host', 'calloc refuses requests above 2^52 items (RM_MAX_BUCKETS in the model)',
                       'manual resize requests below 179 * 2^48 (beyond that the C growth loop does not terminate)',
                       'source buffers of clone are verified buffers (acyclic), source addresses are not reused while the map lives']
    ctx.finish_args = dict(
        rule='refmap: one case = one operation sequence from init (classes: small_random over pools with null key / colliding / top-of-range hashes, '
             'growth_N for N in 0..10^5 around every load threshold with refusals and retries, collide_same/end/top with keys computed through the inverse hash, '
             'refuse_boundary, stream); every reply, (count, buckets) and table dumps compared with the extracted model and with a python dict. '
             'clone: one case = (DAG program, operation, refmap on/off); verifier verdict, value dump and sharing dump compared. distinct = distinct request lines',
        explanation='theorems of Properties_C18 re-checked against regenerated constants; extracted model = implementation on every operation; '
                    'python dict oracle = the property statement for the map; clone: copy verifies, reads equal, shares exactly what the source shares when a map is active')
