"""Helpers of checks/c10.py: Coq build of the Trie area, schema handling, generators, the python oracle."""
import os, sys, re, time, fcntl, hashlib
from . import lib

sys.path.insert(0, os.path.join(lib.ROOT, 'translators'))
import trie_h_to_coq as T3   # noqa: E402

COQ_FILES = ['Trie/TrieAst.v', 'Trie/TrieEval.v', 'Trie/TrieSpec.v', 'Trie/TrieCheck.v', 'Trie/TrieBytes.v', 'Trie/TrieProofs.v',
             'Generated/Tries_C10.v', 'Trie/TrieCorpus.v', 'Properties/Properties_C10.v']
COQ_DEPS = {  # file -> files it requires (within this area)
    'Trie/TrieEval.v': ['Trie/TrieAst.v'], 'Trie/TrieSpec.v': ['Trie/TrieAst.v'],
    'Trie/TrieCheck.v': ['Trie/TrieAst.v', 'Trie/TrieEval.v', 'Trie/TrieSpec.v'],
    'Trie/TrieBytes.v': ['Trie/TrieCheck.v'], 'Trie/TrieProofs.v': ['Trie/TrieCheck.v', 'Trie/TrieBytes.v'],
    'Generated/Tries_C10.v': ['Trie/TrieAst.v'],
    'Trie/TrieCorpus.v': ['Trie/TrieProofs.v', 'Generated/Tries_C10.v'],
    'Properties/Properties_C10.v': ['Trie/TrieCorpus.v'],
}


def coq_build(ctx, timeout=900):
    """Re-check the Trie area up to Properties_C10.vo with coqc, in dependency order, recompiling whatever is older than
    its source or than a dependency.  Returns (ok, log)."""
    lock = open(os.path.join(lib.COQ, '.lock'), 'w')
    fcntl.flock(lock, fcntl.LOCK_EX)
    log, rebuilt = [], set()
    try:
        for f in COQ_FILES:
            v = os.path.join(lib.COQ, f); vo = v + 'o'
            stale = not os.path.exists(vo) or os.path.getmtime(vo) < os.path.getmtime(v)
            for d in COQ_DEPS.get(f, []):
                dvo = os.path.join(lib.COQ, d) + 'o'
                if d in rebuilt or (os.path.exists(vo) and os.path.exists(dvo) and os.path.getmtime(dvo) > os.path.getmtime(vo)): stale = True
            if not stale: continue
            cmd = ['coqc', '-Q', '.', 'Flatcc', '-w', '-notation-overridden,-deprecated-hint-without-locality,-deprecated-instance-without-locality,-deprecated-syntactic-definition', f]
            ctx.checker_cmds.append('cd coq && coqc -Q . Flatcc ' + f)
            rc, out = lib.sh(cmd, cwd=lib.COQ, timeout=timeout)
            log.append('coqc %s -> %d\n%s' % (f, rc, out[-3000:]))
            if rc != 0:
                if os.path.exists(vo): os.remove(vo)
                return False, '\n'.join(log)
            rebuilt.add(f)
    finally:
        fcntl.flock(lock, fcntl.LOCK_UN); lock.close()
    return True, '\n'.join(log)


def check_theorems(ctx):
    """lib.Ctx.check_theorems with the area's own ordered coqc build (the shared Makefile only knows files that existed
    when bin/setup last ran)."""
    mod = 'Properties_C10'
    names = ctx.theorem_names(mod + '.v')
    ctx.obligations += len(names)
    ok, out = coq_build(ctx)
    ctx.coq_log = out
    if not ok:
        m = re.findall(r'File "([^"]+)", line (\d+)', out)
        ctx.broken = {'files': sorted(set('%s:%s' % x for x in m)), 'log_tail': out[-3000:]}
        return False
    v = os.path.join(ctx.bdir, 'assum_%s.v' % mod)
    with open(v, 'w') as f:
        f.write('From Flatcc.Properties Require Import %s.\n' % mod)
        for n in names:
            f.write('Goal True. idtac "@@ %s". exact I. Qed.\nPrint Assumptions %s.\n' % (n, n))
    rc, o = lib.sh(['coqc', '-Q', lib.COQ, 'Flatcc', v], timeout=300, cwd=ctx.bdir)
    if rc != 0:
        ctx.broken = {'files': [], 'log_tail': o[-3000:]}
        return False
    parts = re.split(r'@@ (\S+)\n', o)
    got = {}
    for i in range(1, len(parts) - 1, 2): got[parts[i]] = ' '.join(parts[i + 1].split())
    for n in names:
        ctx.theorems.append({'theorem': n, 'assumptions': got.get(n, '?')})
        if n in got: ctx.discharged += 1
    ctx.checker_cmds.append('coqc -Q coq Flatcc build/C10/assum_%s.v  (Print Assumptions for every theorem)' % mod)
    return all(n in got for n in names)


# ------------------------------------------------------------------------------------------------ schema model
class Sch:
    """One schema: text, parsed declarations, expected dictionaries, (after prepare) translated tries + harness."""
    def __init__(self, base, text, origin):
        self.base, self.text, self.origin = base, text, origin
        self.files = T3.split_bundle(text, base)      # file base name -> text (the root file first)
        self.schema = T3.parse_bundle(text, base)
        self.cnames, self.dicts = T3.dictionaries(self.schema, base)
        self.entries = None       # translate() result
        self.terr = None
        self.exe = None

    def decl(self, kind, cn):
        for d in self.schema['decls']:
            if d['kind'] == kind and T3.cname(d) == cn: return d
        return None

    def enums(self):
        return [d for d in self.schema['decls'] if d['kind'] in ('enum', 'union')]

    def visible_enums(self, decl):
        """enum / union types visible to the file that declares `decl` (that file and everything it includes)"""
        vis = self.schema['visible'][decl['file']]
        return [d for d in self.enums() if d['file'] in vis]

    def root(self):
        r = self.schema['root']
        for d in self.schema['decls']:
            if d['kind'] == 'table' and (d['name'] == r or '.'.join(d['ns'] + [d['name']]) == r): return d
        return None


INT_RANGE = {'bool': (0, 1), 'byte': (-128, 127), 'ubyte': (0, 255), 'short': (-32768, 32767), 'ushort': (0, 65535),
             'int': (-2**31, 2**31 - 1), 'uint': (0, 2**32 - 1), 'long': (-2**63, 2**63 - 1), 'ulong': (0, 2**64 - 1),
             'int8': (-128, 127), 'uint8': (0, 255), 'int16': (-32768, 32767), 'uint16': (0, 65535), 'int32': (-2**31, 2**31 - 1),
             'uint32': (0, 2**32 - 1), 'int64': (-2**63, 2**63 - 1), 'uint64': (0, 2**64 - 1)}


def field_kind(sch, tdecl, f):
    """-> (kind, info): scalar(size, typename) | float | enum(decl) | string | table(decl) | struct(decl) | union(decl) and vec flag"""
    ty = f['type']
    if ty in T3.SCALARS:
        if ty in ('float', 'float32', 'double', 'float64'): return 'float', T3.SCALARS[ty]
        return 'scalar', ty
    if ty == 'string': return 'string', None
    ref = T3.resolve(sch.schema, tdecl['ns'], ty)
    return ref['kind'], ref


def table_paths(sch):
    """Reachability from the root table: cname(table) -> list of hops; hop = (field name bytes, id, 'table'|'union', member symbol)"""
    root = sch.root()
    if root is None: return {}
    paths = {T3.cname(root): []}
    todo = [root]
    while todo:
        t = todo.pop(0)
        p = paths[T3.cname(t)]
        for f in t['fields']:
            if 'deprecated' in f['attrs'] or f['vec']: continue
            k, info = field_kind(sch, t, f)
            if k == 'table' and T3.cname(info) not in paths:
                paths[T3.cname(info)] = p + [(f['name'], f['id'], 'table', None)]; todo.append(info)
            elif k == 'union':
                for sym, val in info['syms']:
                    if sym == 'NONE': continue
                    m = T3.resolve(sch.schema, info['ns'], sym)
                    if m and m['kind'] == 'table' and T3.cname(m) not in paths:
                        paths[T3.cname(m)] = p + [(f['name'], f['id'], 'union', sym)]; todo.append(m)
    return paths


def wrap(hops, inner):
    """JSON text (bytes) that places `inner` (an object text) at the table reached by hops"""
    out = inner
    for name, fid, how, sym in reversed(hops):
        if how == 'table': out = b'{"' + name.encode() + b'":' + out + b'}'
        else: out = b'{"' + name.encode() + b'_type":"' + sym.encode() + b'","' + name.encode() + b'":' + out + b'}'
    return out


def path_ids(hops):
    return '.'.join(str(h[1]) for h in hops) or '-'


def sentinel(fid, size):
    if size == 1: return (fid * 7) % 100 + 1
    if size == 2: return 1000 + fid
    return 100000 + fid * 13 + 1


def value_for(sch, tdecl, f):
    """-> (json value text bytes, extra-key prefix bytes (union type), expected {id: checker}) for a declared field.
    checker: ('le', size, int) exact little-endian value | ('present',) | ('zero-struct', size)"""
    k, info = field_kind(sch, tdecl, f)
    fid = f['id']
    if f['vec']:
        if k == 'union':
            m = [s for s, _ in info['syms'] if s != 'NONE'][0]
            return b'[{}]', b'"' + f['name'].encode() + b'_type":["' + m.encode() + b'"],', {fid: ('present',), fid - 1: ('present',)}
        inner = {'scalar': b'[1]', 'float': b'[1]', 'enum': b'[0]', 'string': b'["a"]', 'table': b'[{}]', 'struct': b'[{}]'}[k]
        return inner, b'', {fid: ('present',)}
    if k == 'scalar':
        size = T3.SCALARS[info]
        v = 1 if info == 'bool' else sentinel(fid, size)
        return str(v).encode(), b'', {fid: ('le', size, v)}
    if k == 'float': return b'2.5', b'', {fid: ('present',)}
    if k == 'enum':
        size = T3.SCALARS[info['base']]
        lo, hi = INT_RANGE[info['base']]
        v = min(max(sentinel(fid, size), lo), hi)
        return str(v).encode(), b'', {fid: ('le', size, v)}
    if k == 'string': return b'"s"', b'', {fid: ('present',)}
    if k == 'table': return b'{}', b'', {fid: ('present',)}
    if k == 'struct': return b'{}', b'', {fid: ('present',)}
    if k == 'union':
        m = [s for s, _ in info['syms'] if s != 'NONE'][0]
        md = T3.resolve(sch.schema, info['ns'], m)
        val = b'{}' if md and md['kind'] in ('table', 'struct') else b'"u"'
        return val, b'"' + f['name'].encode() + b'_type":"' + m.encode() + b'",', {fid: ('present',), fid - 1: ('present',)}
    raise lib.CheckError('value_for: %r' % (k,))


def parse_reply(r):
    """harness reply -> ('OK', {id: bytes}) | ('ERR', code) | ('OTHER', text)"""
    if r is None: return ('OTHER', 'no reply')
    if r.startswith('OK'):
        d = {}
        for tok in r.split()[1:]:
            a, b = tok.split('=')
            d[int(a)] = bytes.fromhex(b) if b not in ('BAD', '-') else b''
        return ('OK', d)
    if r.startswith('ERR'): return ('ERR', int(r.split()[1]))
    return ('OTHER', r)


def check_present(got, want):
    """got {id: bytes}; want {id: checker} -> None or description of the difference"""
    if set(got) != set(want): return 'fields present %s, expected %s' % (sorted(got), sorted(want))
    for fid, c in want.items():
        if c[0] == 'le':
            v = int.from_bytes(got[fid][:c[1]], 'little')
            if v != c[2] % (1 << (8 * c[1])): return 'field %d holds %d, expected %d' % (fid, v, c[2])
    return None


# ------------------------------------------------------------------------------------------------ name generators
IDCH = b'abcdefghijklmnopqrstuvwxyzABCDEFGHIJKLMNOPQRSTUVWXYZ0123456789_'
RESERVED = {'table', 'struct', 'enum', 'union', 'namespace', 'root_type', 'include', 'attribute', 'true', 'false', 'null',
            'file_identifier', 'file_extension', 'rpc_service', 'native_include', 'bool', 'byte', 'ubyte', 'short', 'ushort',
            'int', 'uint', 'long', 'ulong', 'float', 'double', 'string', 'int8', 'uint8', 'int16', 'uint16', 'int32', 'uint32',
            'int64', 'uint64', 'float32', 'float64', 'NONE', 'nan', 'inf', 'infinity'}


def near_misses(name, rng, declared):
    """near-miss identifier names for a declared name (bytes): truncated / extended / one byte changed, aimed at window edges"""
    out = set()
    n = len(name)
    for k in {n - 1, n - 2, (n // 8) * 8, (n // 8) * 8 - 1, (n // 8) * 8 + 1, 7, 8, 9, 15, 16, 17}:
        if 0 < k < n: out.add(name[:k])
    for ext in (b'a', b'_', b'0', b'9', b'z', b'A', b'Z', b'_type', b'_typ', b'_t', b'00000000', b'abcdefgh', b'x' * (8 - n % 8), b'x' * (9 - n % 8)):
        out.add(name + ext)
    pos = {0, n - 1, n // 2, 7, 8, 15, 16, 23, 24, rng.randrange(n)}
    for i in pos:
        if 0 <= i < n:
            c = name[i]
            for repl in {c + 1, c - 1, ord('0'), ord('_'), ord('z'), ord('9'), c ^ 0x20}:
                if repl in IDCH and repl != c and not (i == 0 and (48 <= repl <= 57)):
                    out.add(name[:i] + bytes([repl]) + name[i + 1:])
    if name.endswith(b'_type'):
        out.add(name[:-5]); out.add(name[:-5] + b'type'); out.add(name[:-5] + b'_Type'); out.add(name[:-1]); out.add(name + b'e'); out.add(name + b'_')
    return sorted(x for x in out if x and x not in declared and not (48 <= x[0] <= 57))


def rand_ident(rng, n, first=b'abcdefghijklmnopqrstuvwxyzABCDEFGHIJKLMNOPQRSTUVWXYZ'):
    return bytes([rng.choice(first)] + [rng.choice(IDCH) for _ in range(n - 1)])


def name_family(rng, want):
    """a set of identifier names (str) mixing the name-set classes of the property's quantifier"""
    names = set()
    while len(names) < want:
        fam = rng.choice(['chain', 'siblings', 'lastbyte', 'random', 'digits', 'chain'])
        if fam == 'chain':
            base = rand_ident(rng, rng.choice([9, 12, 17, 20, 25, 33, 40]))
            ks = set(rng.sample(range(1, len(base) + 1), min(len(base), rng.randint(2, 7)))) | {k for k in (7, 8, 9, 15, 16, 17, 24) if k <= len(base) and rng.random() < 0.5}
            for k in ks: names.add(base[:k])
        elif fam == 'siblings':
            p = rand_ident(rng, rng.choice([7, 8, 8, 9, 15, 16, 16, 17, 24]))
            if rng.random() < 0.5: names.add(p)
            for _ in range(rng.randint(2, 8)):
                names.add(p + bytes(rng.choice(IDCH) for _ in range(rng.choice([1, 1, 2, 3, 8, 9]))))
        elif fam == 'lastbyte':
            p = rand_ident(rng, rng.choice([7, 15, 23]))
            for c in rng.sample(list(IDCH), rng.randint(2, 5)):
                names.add(p + bytes([c]))
                if rng.random() < 0.3: names.add(p + bytes([c]) + rand_ident(rng, rng.randint(1, 9), IDCH))
            if rng.random() < 0.5: names.add(p)
        elif fam == 'digits':
            p = rand_ident(rng, rng.choice([1, 2, 3, 6, 7, 8, 10, 15, 16]))
            names.add(p)
            for d in rng.sample(list(b'0123456789'), rng.randint(2, 6)): names.add(p + bytes([d]))
        else:
            names.add(rand_ident(rng, rng.choice([1, 2, 3, 5, 7, 8, 9, 12, 15, 16, 17, 24, 31, 40])))
    out = sorted(n.decode() for n in names if n.decode() not in RESERVED)
    rng.shuffle(out)
    return out[:want]


def random_schema(rng, idx):
    """a schema text: one table of int fields with a random name family (some union / string / enum fields), one enum with a
    random symbol family, a second namespace with an enum for the scope dictionaries"""
    nfields = rng.choice([3, 6, 10, 16, 24, 32])
    fields = name_family(rng, nfields)
    syms = name_family(rng, rng.choice([2, 4, 7, 12]))
    ens = name_family(rng, rng.choice([1, 2, 4]))
    ens = [e for e in ens if e not in ('R', 'Sub', 'Leaf', 'U', 'Void', 'Gone')]
    if not ens: ens = ['Enum0']
    base_t = rng.choice(['byte', 'short', 'int', 'long', 'ubyte', 'ushort', 'uint'])
    lo, hi = INT_RANGE[base_t]
    vals, cur = [], 0
    for s in syms:
        vals.append(cur); cur += rng.choice([1, 1, 2, 5])
        if cur > hi: cur = hi
    vals = sorted(set(vals))[:len(syms)]
    syms = syms[:len(vals)]
    o = ['namespace N%d;' % idx]
    o.append('enum %s : %s { %s }' % (ens[0], base_t, ', '.join('%s = %d' % (s, v) for s, v in zip(syms, vals))))
    for e in ens[1:]:
        o.append('enum %s : int { Aa = 0, Ab, %s }' % (e, e + '_x'))
    o.append('table Leaf { leaf:int; }')
    o.append('table Void {}')
    o.append('table Gone { was:int (deprecated); }')
    o.append('union U { Leaf }')
    fl = []
    used = set()
    for i, f in enumerate(fields):
        if f in used or f + '_type' in used: continue
        r = rng.random()
        if r < 0.08 and (f + '_type') not in fields:
            fl.append('%s:U' % f); used.add(f); used.add(f + '_type')
        elif r < 0.14: fl.append('%s:string' % f); used.add(f)
        elif r < 0.2: fl.append('%s:%s' % (f, ens[0])); used.add(f)
        elif r < 0.24: fl.append('%s:[%s]' % (f, ens[0])); used.add(f)
        else: fl.append('%s:%s' % (f, rng.choice(['int', 'int', 'int', 'short', 'ubyte', 'long']))); used.add(f)
    for extra, ty in (('zz_void', 'Void'), ('zz_voids', '[Void]'), ('zz_gone', 'Gone'), ('zz_enum_field', ens[0]), ('zz_enum_vector', '[%s]' % ens[0]), ('zz_string', 'string'), ('zz_int', 'int')):
        if extra not in used: fl.append('%s:%s' % (extra, ty)); used.add(extra)
    for ln in rng.sample([3, 8, 11, 16, 19, 24], rng.choice([1, 2, 3])):
        u = rand_ident(rng, ln).decode()
        sibs = [u + '_type_' + rand_ident(rng, rng.choice([1, 4, 9]), IDCH).decode(), u + '_' + rand_ident(rng, rng.choice([1, 4]), IDCH).decode()]
        if u in RESERVED or any(x in used for x in [u, u + '_type'] + sibs): continue
        fl.append('%s:%s' % (u, rng.choice(['U', 'U', '[U]']))); used.add(u); used.add(u + '_type')
        for x in sibs:
            if x not in used and x != u + '_type': fl.append('%s:int' % x); used.add(x)
    table = 'table R {\n' + ''.join('  %s;\n' % x for x in fl) + '}'
    if rng.random() < 0.35:
        # a qualified enum name that is also a namespace: `<P>.<E>` next to namespace `<P>.<E>` with enum `<F>`; the lengths put
        # the end of `<P>.<E>` around the 8 / 16 byte window boundaries
        tot = rng.choice([7, 8, 9, 15, 16, 17, rng.randint(3, 20)])
        el = rng.randint(1, max(1, min(6, tot - 2)))
        P, E, F = 'Q' + rand_ident(rng, max(1, tot - el - 1), IDCH).decode()[1:], rand_ident(rng, el).decode(), rand_ident(rng, rng.choice([1, 2, 7, 9])).decode()
        if not ({P, E, F} & RESERVED) and P != 'N%d' % idx:
            o.insert(0, 'namespace %s;\nenum %s : ubyte { Sa = 0, Sb = 3 }\nnamespace %s.%s;\nenum %s : ubyte { Ta = 0, Tb = 5 }\nenum %s_more : ubyte { Ua = 0, Ub = 6 }' % (P, E, P, E, F, F))
    if rng.random() < 0.5:
        o.append(table); o.append('root_type R;')
        return '\n'.join(o) + '\n'
    # several files: the enums (same namespace as the table) move into an included file, which itself includes a file
    # with an enum of another namespace and one more of the same namespace
    base = 'rnd%d' % idx
    far = 'Far' + rand_ident(rng, rng.choice([1, 5, 13])).decode()
    files = {
        base: 'include "%s_types.fbs";\nnamespace N%d;\nenum Own%d : int { Oa = 0, Ob = 3 }\n%s\nroot_type R;\n' % (base, idx, idx, table),
        base + '_types': 'include "%s_deep.fbs";\n' % base + '\n'.join(o) + '\n',
        base + '_deep': 'namespace N%d.Deep;\nenum %s : short { Fa = 0, Fb = 9 }\nnamespace N%d;\nenum Deep%d : ubyte { Da = 0, Db = 200 }\n' % (idx, far, idx, idx),
    }
    return T3.join_bundle(files, base)
