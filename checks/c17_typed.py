"""C17, generated-code layer: typed roots (type identifier / type hash) through the GENERATED builder, verifier and reader.

The runtime header functions are compared with the model in checks/c17.py; this module checks the property's own statement on the
code flatcc generates for schemas whose type hashes are engineered to contain a zero byte at each of the four positions (the
"identifiers with embedded zero bytes" of the quantifier): a buffer finished as typed root of N carries hash(N); every typed
verify variant and typed root accessor of N accepts it; those of another type M (different hash) reject it; the same for nested
typed roots (built with start/end, create, clone inside a parent with nested_flatbuffer fields).
"""
import os
from . import lib


def raw_fnv(bs):
    h = 2166136261
    for c in bs:
        h = ((h ^ c) * 16777619) & 0xffffffff
    return h


def engineered(rng, prefix, want_pos, start):
    """first name prefix<k>, k >= start, whose FNV-1a-32 has a zero byte exactly at byte position want_pos (None: no zero byte)."""
    k = start
    while True:
        nm = '%s%d' % (prefix, k)
        h = raw_fnv(nm.encode())
        zs = [p for p in range(4) if (h >> (8 * p)) & 0xff == 0]
        if (want_pos is None and not zs) or (want_pos is not None and zs == [want_pos]):
            return nm, h
        k += 1


GLUE_HEAD = r'''
#include <stdio.h>
#include <string.h>
#include <stdint.h>
#include "tr_builder.h"
#include "tr_verifier.h"
#include "tr_json_parser.h"
static flatcc_builder_t builder, *B = &builder;
static uint32_t rd32(const void *p) { const uint8_t *b = p; return (uint32_t)b[0] | ((uint32_t)b[1] << 8) | ((uint32_t)b[2] << 16) | ((uint32_t)b[3] << 24); }
static void R(const char *type, const char *variant, const char *acceptor, int got, int want)
{ printf("R %s %s %s got=%d want=%d\n", type, variant, acceptor, got, want); }
'''


def render_glue(types):
    """types: list of (cname, kind, hash). Returns C text."""
    out = [GLUE_HEAD]
    # per type: builders of a standalone typed root
    for n, kind, h in types:
        if kind == 'table':
            out.append('''
static void *build_%(n)s(int variant, size_t *size)
{
    flatcc_builder_reset(B);
    switch (variant) {
    case 0: if (!%(n)s_create_as_typed_root(B, 7)) return 0; break;
    case 1: if (!%(n)s_create_as_typed_root_with_size(B, 7)) return 0; break;
    case 2: if (%(n)s_start_as_typed_root(B) || %(n)s_x_add(B, 7) || !%(n)s_end_as_typed_root(B)) return 0; break;
    case 3: if (%(n)s_start_as_typed_root_with_size(B) || %(n)s_x_add(B, 7) || !%(n)s_end_as_typed_root(B)) return 0; break;
    case 4: case 5: {
        void *src; size_t ssize; if (!%(n)s_create_as_root(B, 7)) return 0;
        src = flatcc_builder_finalize_aligned_buffer(B, &ssize); if (!src) return 0;
        flatcc_builder_reset(B);
        if (variant == 4 ? !%(n)s_clone_as_typed_root(B, %(n)s_as_root_with_identifier(src, 0)) : !%(n)s_clone_as_typed_root_with_size(B, %(n)s_as_root_with_identifier(src, 0))) { flatcc_builder_aligned_free(src); return 0; }
        flatcc_builder_aligned_free(src); } break;
    }
    return flatcc_builder_finalize_aligned_buffer(B, size);
}
''' % {'n': n})
        else:
            out.append('''
static void *build_%(n)s(int variant, size_t *size)
{
    %(n)s_t *p;
    flatcc_builder_reset(B);
    switch (variant) {
    case 0: if (!%(n)s_create_as_typed_root(B, 7)) return 0; break;
    case 1: if (!%(n)s_create_as_typed_root_with_size(B, 7)) return 0; break;
    case 2: if (!(p = %(n)s_start_as_typed_root(B))) return 0; p->x = 7; if (!%(n)s_end_as_typed_root(B)) return 0; break;
    case 3: if (!(p = %(n)s_start_as_typed_root_with_size(B))) return 0; p->x = 7; if (!%(n)s_end_as_typed_root(B)) return 0; break;
    case 4: case 5: {
        void *src; size_t ssize; if (!%(n)s_create_as_root(B, 7)) return 0;
        src = flatcc_builder_finalize_aligned_buffer(B, &ssize); if (!src) return 0;
        flatcc_builder_reset(B);
        if (variant == 4 ? !%(n)s_clone_as_typed_root(B, %(n)s_as_root_with_identifier(src, 0)) : !%(n)s_clone_as_typed_root_with_size(B, %(n)s_as_root_with_identifier(src, 0))) { flatcc_builder_aligned_free(src); return 0; }
        flatcc_builder_aligned_free(src); } break;
    }
    return flatcc_builder_finalize_aligned_buffer(B, size);
}
''' % {'n': n})
    # acceptors of type M applied to a buffer (plain or size-prefixed)
    for m, kind, h in types:
        out.append('''
static void accept_%(m)s(const char *type, const char *variant, int ws, void *buf, size_t size, int want)
{
    void *body = ws ? (uint8_t *)buf + 4 : buf;
    if (ws) {
        R(type, variant, "%(m)s_verify_as_typed_root_with_size", %(m)s_verify_as_typed_root_with_size(buf, size) == 0, want);
        R(type, variant, "%(m)s_verify_as_root_with_type_hash_and_size", %(m)s_verify_as_root_with_type_hash_and_size(buf, size, %(m)s_type_hash) == 0, want);
    } else {
        R(type, variant, "%(m)s_verify_as_typed_root", %(m)s_verify_as_typed_root(buf, size) == 0, want);
        R(type, variant, "%(m)s_verify_as_root_with_type_hash", %(m)s_verify_as_root_with_type_hash(buf, size, %(m)s_type_hash) == 0, want);
    }
    R(type, variant, "%(m)s_as_typed_root", %(m)s_as_typed_root(body) != 0, want);
    R(type, variant, "%(m)s_as_root_with_type_hash", %(m)s_as_root_with_type_hash(body, %(m)s_type_hash) != 0, want);
}
''' % {'m': m})
    # every generated verify wrapper that takes / implies a FILE identifier, on plain and size-prefixed roots
    for n, kind, h in types:
        out.append('''
static void fileid_%(n)s(void)
{
    void *buf; size_t size; int ws;
    for (ws = 0; ws < 2; ++ws) {
        const char *vn = ws ? "fileid_with_size" : "fileid";
        flatcc_builder_reset(B);
        if (ws ? !%(n)s_create_as_root_with_size(B, 7) : !%(n)s_create_as_root(B, 7)) { R("%(n)s", vn, "build", 0, 1); continue; }
        buf = flatcc_builder_finalize_aligned_buffer(B, &size);
        R("%(n)s", vn, "stored_identifier_is_file_identifier", rd32((uint8_t *)buf + (ws ? 8 : 4)) == 0x44434241u, 1);
        if (ws) {
            R("%(n)s", vn, "verify_as_root_with_size", %(n)s_verify_as_root_with_size(buf, size) == 0, 1);
            R("%(n)s", vn, "verify_as_root_with_identifier_and_size(ABCD)", %(n)s_verify_as_root_with_identifier_and_size(buf, size, "ABCD") == 0, 1);
            R("%(n)s", vn, "verify_as_root_with_identifier_and_size(null)", %(n)s_verify_as_root_with_identifier_and_size(buf, size, 0) == 0, 1);
            R("%(n)s", vn, "verify_as_root_with_identifier_and_size(empty)", %(n)s_verify_as_root_with_identifier_and_size(buf, size, "") == 0, 1);
            R("%(n)s", vn, "verify_as_root_with_identifier_and_size(ABCE)", %(n)s_verify_as_root_with_identifier_and_size(buf, size, "ABCE") == 0, 0);
            R("%(n)s", vn, "verify_as_typed_root_with_size", %(n)s_verify_as_typed_root_with_size(buf, size) == 0, 0);
        } else {
            R("%(n)s", vn, "verify_as_root", %(n)s_verify_as_root(buf, size) == 0, 1);
            R("%(n)s", vn, "verify_as_root_with_identifier(ABCD)", %(n)s_verify_as_root_with_identifier(buf, size, "ABCD") == 0, 1);
            R("%(n)s", vn, "verify_as_root_with_identifier(null)", %(n)s_verify_as_root_with_identifier(buf, size, 0) == 0, 1);
            R("%(n)s", vn, "verify_as_root_with_identifier(empty)", %(n)s_verify_as_root_with_identifier(buf, size, "") == 0, 1);
            R("%(n)s", vn, "verify_as_root_with_identifier(ABCE)", %(n)s_verify_as_root_with_identifier(buf, size, "ABCE") == 0, 0);
            R("%(n)s", vn, "verify_as_typed_root", %(n)s_verify_as_typed_root(buf, size) == 0, 0);
            R("%(n)s", vn, "as_root", %(n)s_as_root(buf) != 0, 1);
            R("%(n)s", vn, "as_root_with_identifier(ABCE)", %(n)s_as_root_with_identifier(buf, "ABCE") != 0, 0);
        }
        flatcc_builder_aligned_free(buf);
    }
}
''' % {'n': n})
    # buffers finished by the generated JSON parser with an explicit identifier argument (type identifier bytes, file identifier, null)
    for n, kind, h in types:
        out.append('''
static void json_%(n)s(void)
{
    static const char json[] = "{\\"x\\":7}";
    void *buf; size_t size; int ws, rc;
    for (ws = 0; ws < 2; ++ws) {
        const char *vn = ws ? "json_typed_with_size" : "json_typed";
        flatcc_builder_reset(B);
        rc = %(n)s_parse_json_as_root(B, 0, json, sizeof(json) - 1, ws ? flatcc_json_parser_f_with_size : 0, %(n)s_type_identifier);
        if (rc) { R("%(n)s", vn, "parse_json_as_root", 0, 1); continue; }
        buf = flatcc_builder_finalize_aligned_buffer(B, &size);
        if (!buf) { R("%(n)s", vn, "parse_json_as_root:finalize", 0, 1); continue; }
        R("%(n)s", vn, "stored_identifier_is_type_hash", rd32((uint8_t *)buf + (ws ? 8 : 4)) == (uint32_t)%(n)s_type_hash, 1);
        if (ws) R("%(n)s", vn, "verify_as_typed_root_with_size", %(n)s_verify_as_typed_root_with_size(buf, size) == 0, 1);
        else { R("%(n)s", vn, "verify_as_typed_root", %(n)s_verify_as_typed_root(buf, size) == 0, 1); R("%(n)s", vn, "as_typed_root", %(n)s_as_typed_root(buf) != 0, 1); }
        flatcc_builder_aligned_free(buf);
    }
    flatcc_builder_reset(B);
    rc = %(n)s_parse_json_as_root(B, 0, json, sizeof(json) - 1, 0, "ABCD");
    if (rc) { R("%(n)s", "json_fileid", "parse_json_as_root", 0, 1); return; }
    buf = flatcc_builder_finalize_aligned_buffer(B, &size);
    if (buf) { R("%(n)s", "json_fileid", "stored_identifier_is_file_identifier", rd32((uint8_t *)buf + 4) == 0x44434241u, 1);
               R("%(n)s", "json_fileid", "verify_as_root", %(n)s_verify_as_root(buf, size) == 0, 1); flatcc_builder_aligned_free(buf); }
}
''' % {'n': n})
    # nested builders
    for i, (n, kind, h) in enumerate(types):
        d = {'n': n, 'f': 'P_n%d' % i, 'i': i}
        if kind == 'table':
            out.append('''
static void *nested_%(n)s(int variant, size_t *size)
{
    void *src = 0; size_t ssize;
    if (variant == 2) { src = build_%(n)s(0, &ssize); if (!src) return 0; }
    flatcc_builder_reset(B);
    if (P_start_as_root(B)) return 0;
    switch (variant) {
    case 0: if (%(f)s_start_as_typed_root(B) || %(n)s_x_add(B, 7) || %(f)s_end_as_typed_root(B)) return 0; break;
    case 1: if (%(f)s_start_as_typed_root(B) || %(n)s_x_add(B, 9) || %(f)s_end_as_typed_root(B)) return 0; break;
    case 2: if (%(f)s_clone_as_typed_root(B, %(n)s_as_root_with_identifier(src, 0))) return 0; break;
    }
    if (!P_end_as_root(B)) return 0;
    if (src) flatcc_builder_aligned_free(src);
    return flatcc_builder_finalize_aligned_buffer(B, size);
}
''' % d)
        else:
            out.append('''
static void *nested_%(n)s(int variant, size_t *size)
{
    void *src = 0; size_t ssize; %(n)s_t *p;
    if (variant == 2) { src = build_%(n)s(0, &ssize); if (!src) return 0; }
    flatcc_builder_reset(B);
    if (P_start_as_root(B)) return 0;
    switch (variant) {
    case 0: if (!(p = %(f)s_start_as_typed_root(B))) return 0; p->x = 7; if (%(f)s_end_as_typed_root(B)) return 0; break;
    case 1: if (%(f)s_create_as_typed_root(B, 7)) return 0; break;
    case 2: if (%(f)s_clone_as_typed_root(B, %(n)s_as_root_with_identifier(src, 0))) return 0; break;
    }
    if (!P_end_as_root(B)) return 0;
    if (src) flatcc_builder_aligned_free(src);
    return flatcc_builder_finalize_aligned_buffer(B, size);
}
''' % d)
    out.append('int main(void)\n{\n    void *buf; size_t size; int v; P_table_t p; const uint8_t *nb;\n    flatcc_builder_init(B);\n')
    for i, (n, kind, h) in enumerate(types):
        out.append('    fileid_%s();\n    json_%s();\n' % (n, n))
        out.append('    for (v = 0; v < 6; ++v) {\n        static const char *vn[] = { "create", "create_with_size", "start_end", "start_end_with_size", "clone", "clone_with_size" };\n'
                   '        int ws = v & 1;\n        buf = build_%s(v, &size);\n        if (!buf) { R("%s", vn[v], "build", 0, 1); continue; }\n'
                   '        R("%s", vn[v], "stored_identifier_is_type_hash", rd32((uint8_t *)buf + (ws ? 8 : 4)) == (uint32_t)%s_type_hash, 1);\n' % (n, n, n, n))
        for m, mkind, mh in types:
            # acceptors of M on a buffer of N: accept iff the hashes are equal (M == N); a struct/table kind mismatch can only add rejections
            want = 1 if m == n else 0
            out.append('        accept_%s("%s", vn[v], ws, buf, size, %d);\n' % (m, n, want))
        out.append('        flatcc_builder_aligned_free(buf);\n    }\n')
        out.append('    for (v = 0; v < 3; ++v) {\n        static const char *vn[] = { "nested_start_end", "nested_%s", "nested_clone" };\n'
                   '        buf = nested_%s(v, &size);\n        if (!buf) { R("%s", vn[v], "build", 0, 1); continue; }\n'
                   '        R("%s", vn[v], "P_verify_as_root", P_verify_as_root(buf, size) == 0, 1);\n'
                   '        p = P_as_root(buf);\n        nb = p ? (const uint8_t *)P_n%d_get(p) : 0;\n'
                   '        R("%s", vn[v], "nested_stored_identifier_is_type_hash", nb && rd32(nb + 4) == (uint32_t)%s_type_hash, 1);\n'
                   '        R("%s", vn[v], "P_n_as_typed_root", p && P_n%d_as_typed_root(p) != 0, 1);\n'
                   '        R("%s", vn[v], "P_n_as_root", p && P_n%d_as_root(p) != 0, 0);   /* the schema has a file identifier: a nested TYPED root does not carry it */\n'
                   '        flatcc_builder_aligned_free(buf);\n    }\n'
                   % ('start_end_2' if kind == 'table' else 'create', n, n, n, i, n, n, n, i, n, i))
    out.append('    flatcc_builder_clear(B);\n    return 0;\n}\n')
    return ''.join(out)


def typed_roots(ctx):
    rng = ctx.rng
    nsets = 4 if ctx.thorough else 1
    for si in range(nsets):
        start = 0 if si == 0 else rng.randint(1, 2000000)
        types = []
        for pos in (0, 1, 2, 3, None):
            for kind, prefix in (('table', 'Tz'), ('struct', 'Sz')):
                if pos is None and kind == 'struct' and si: continue
                ns = rng.choice(['', '', 'Ns', 'Deep.Er']) if si else ('Ns' if pos == 2 and kind == 'table' else '')
                nm, h = engineered(rng, (ns + '.' if ns else '') + prefix, pos, start)
                types.append((ns, nm.split('.')[-1], kind, h, pos))
        # schema
        decls = []
        for ns, nm, kind, h, pos in types:
            decls.append(('namespace %s;\n' % ns if ns else 'namespace;\n') + '%s %s { x:int; }\n' % (kind, nm))
        decls.append('namespace;\ntable P {\n')
        for i, (ns, nm, kind, h, pos) in enumerate(types):
            decls.append('  n%d:[ubyte](nested_flatbuffer:"%s");\n' % (i, (ns + '.' if ns else '') + nm))
        decls.append('}\nroot_type P;\nfile_identifier "ABCD";\n')
        d = os.path.join(ctx.bdir, 'typed%d' % si); os.makedirs(d, exist_ok=True)
        fbs = os.path.join(d, 'tr.fbs'); open(fbs, 'w').write(''.join(decls))
        rc, out = ctx.gen(fbs, d, opts=('-a', '--json'))
        if rc != 0:
            ctx.violation('typed-root:schema-rejected', 'flatcc rejected the typed-root schema: ' + out[:300], {'schema': ''.join(decls)})
            continue
        ctypes = [((ns.replace('.', '_') + '_' if ns else '') + nm, kind, h) for ns, nm, kind, h, pos in types]
        posof = {c[0]: t[4] for c, t in zip(ctypes, types)}
        hashof = {c[0]: c[2] for c in ctypes}
        glue = os.path.join(d, 'typed_glue.c'); open(glue, 'w').write(render_glue(ctypes))
        try:
            exe = ctx.cc([glue] + ctx.rt_objs(san=True, defs=['-DNDEBUG']), os.path.join(d, 'typed_glue'), san=True, defs=['-DNDEBUG'], incs=['-I' + d])
        except lib.BuildFailure as e:
            ctx.violation('typed-root:generated-code-does-not-compile', 'generated typed-root API of an accepted schema does not compile: ' + str(e)[-600:],
                          {'schema': ''.join(decls)})
            continue
        rc, out = lib.sh([exe], timeout=300, cwd=d)
        lines = [l for l in out.splitlines() if l.startswith('R ')]
        if rc != 0 or not lines:
            ctx.violation('typed-root:crash', 'typed-root glue crashed (rc %s): %s' % (rc, out[-800:]), {'schema': ''.join(decls)})
        for l in lines:
            _, ty, variant, acc, got, want = l.split()
            got = int(got.split('=')[1]); want = int(want.split('=')[1])
            ctx.count(l[:80] + str(si), klass='typed_root')
            if got != want:
                generic = acc
                for c in hashof:
                    if acc.startswith(c + '_'): generic = ('own:' if c == ty else 'other:') + acc[len(c) + 1:]
                pos = posof.get(ty)
                ctx.violation('typed-root:%s:%s:zero-byte-%s' % (generic, 'nested' if variant.startswith('nested') else 'root', 'none' if pos is None else pos),
                              '%s %s a %s typed-root buffer of %s (type hash %08x, built with %s) - the property demands %s'
                              % (acc, 'accepts' if got else 'rejects / fails on', 'nested' if variant.startswith('nested') else 'top-level', ty, hashof.get(ty, 0), variant,
                                 'acceptance (requested identifier equals the stored one)' if want else 'rejection (requested identifier differs from the stored one)'),
                              {'schema': ''.join(decls), 'glue': 'checks/c17_typed.py render_glue', 'line': l, 'type_hash': '%08x' % hashof.get(ty, 0)})
    return
