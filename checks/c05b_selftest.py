"""Selftest of the document-level round-trip tie (checks/c05b_util.py):   cd /verif && python3 -m checks.c05b_selftest [seed] [thorough 0|1]
Exit status 1 on any mismatch.  Build output under build/C05b/."""
import sys, time
from . import lib, c05b_util as D


def main():
    seed = int(sys.argv[1]) if len(sys.argv) > 1 else lib.mk_seed()
    t0 = time.time()
    ctx = lib.Ctx('C05b', 'thorough' if len(sys.argv) > 2 and sys.argv[2] == '1' else 'quick', seed, 'other')
    maxlvl = D.B.parse_max_levels() or 100
    trees = D.make_trees(ctx.rng, ctx.thorough, maxlvl)
    cases = []
    for k, tr in enumerate(trees):
        suite, root, tree, klass = tr[:4]
        for pb, ind, pf in D.settings_for(ctx.rng, klass, k):
            cases.append((suite, root, tree, klass, pb, ind, pf) + tuple(tr[4:5]))
    mism, stats = D.round_trip_check(ctx, cases)
    hist = {}
    for c in cases: hist[c[3]] = hist.get(c[3], 0) + 1
    print('c05b_selftest: seed %d, %d cases %r' % (seed, len(cases), hist))
    for rp in stats.pop('frame_limit_replays', [])[:3]: print('FINDING parser-frame-limit replay: %r' % rp)
    print('c05b_selftest: stats %r, %.1f s' % (stats, time.time() - t0))
    keys = {}
    for m in mism: keys.setdefault(m['key'], []).append(m)
    for k, ms in sorted(keys.items()):
        print('MISMATCH %s (%d): %s' % (k, len(ms), ms[0]['what'][:400]))
        print('   src: %s' % ms[0]['replay'].get('source_json', '')[:200])
        print('   C: %s' % ms[0]['replay'].get('c_reply', '')[:300]); print('   M: %s' % ms[0]['replay'].get('model_reply', '')[:300])
    print('c05b_selftest: %s' % ('FAIL (%d mismatches)' % len(mism) if mism else 'ok'))
    sys.exit(1 if mism else 0)


if __name__ == '__main__':
    main()
