"""C07 - Every accepted schema yields C code that compiles and encodes the right layout.

1. Theorems (Properties_C07.v): analyze_struct / fb_align / id assignment, as transcribed in coq/Layout, decide and
   compute exactly the independent FlatBuffers layout and id rules, for all member / field lists.
2. Translation validation of the generator, per schema: random schema ASTs (gen/schema_gen.py) -> .fbs -> the freshly
   built flatcc in every output shape -> gcc -std=c11 -Wall -Wextra -Werror=implicit-function-declaration, and a compiled
   probe printing sizeof / alignof / offsetof of every struct, the vtable slot every compiled accessor reads, scalar
   defaults, enum constants, vector element sizes; compared with the EXTRACTED model (modelrun_layout) and with an
   independent python computation of the rules; ids / sizes / alignments also read from the reader macros, static
   assertions and verifier calls in the generated text.
3. Boundary struct and id-attribute cases (sizes around FLATCC_STRUCT_MAX_SIZE, force_align values, id permutations with
   gaps / duplicates / hidden type slots): model verdict == python rule verdict == compiler accept/reject.
"""
import os, re, shutil, random
from . import lib
from . import layout_util as U
from .layout_util import G

GCC = ['gcc', '-std=c11', '-Wall', '-Wextra', '-Werror=implicit-function-declaration', '-DNDEBUG']
KINDS = ['reader', 'builder', 'verifier', 'json_parser', 'json_printer']


def err_site(err):
    """which generated file the first error is in: reader / builder / ... / common_reader / concat"""
    m = re.search(r'^(\S+?):\d+:\d+: error', err, flags=re.M)
    if not m: return 'unknown'
    b = os.path.basename(m.group(1))
    for k in ('common_reader', 'common_builder', 'json_parser', 'json_printer', 'reader', 'builder', 'verifier'):
        if b.endswith('_' + k + '.h'): return k
    return 'concat' if b in ('all.h', 'out.h') else 'tu'


def norm_err(err):
    m = re.search(r'(error: .*)', err)
    s = m.group(1) if m else (err.strip().split('\n')[-1] if err.strip() else 'unknown')
    s = re.sub(r"[‘'][^’']*[’']", 'X', s)
    s = re.sub(r';.*', '', s)
    s = re.sub(r'\s*\[-W[^\]]*\]', '', s)
    s = re.sub(r"[A-Za-z_]*\d\w*", 'X', s)
    return re.sub(r'\s+', '_', s)[:120]


def syntax(tu_text, path, incs):
    open(path, 'w').write(tu_text)
    cmd = GCC + ['-fsyntax-only', '-I' + os.path.join(lib.REPO, 'include')] + ['-I' + i for i in incs] + [path]
    rc, out, err = U.run(cmd, timeout=300)
    return rc, err


def schema_job(a):
    """one schema through every output shape; returns dict(problems=[(key, what, detail)], counts)"""
    i, schema, flatcc, bdir, thorough, exp = a
    d = os.path.join(bdir, 's%d' % i)
    shutil.rmtree(d, ignore_errors=True)
    src = os.path.join(d, 'src')
    root = schema.write(src)
    rb = schema.files[0].name
    probs, ncomp = [], 0
    replay = {'schema_files': schema.render(), 'root': rb + '.fbs'}

    def gen(shape, opts, out_to=None):
        od = os.path.join(d, shape); os.makedirs(od, exist_ok=True)
        cmd = [flatcc] + opts + ['-I', src]
        if out_to is None: cmd += ['-o', od]
        cmd += [root]
        rc, out, err = U.run(cmd, timeout=120)
        if out_to is not None and rc == 0: open(os.path.join(od, out_to), 'w').write(out)
        if rc != 0:
            probs.append(('rejected:' + shape if shape != 'all' else 'schema-rejected', 'flatcc %s failed on a valid schema: %s' % (' '.join(opts), err[:300]),
                          dict(replay, options=opts)))
            return None
        return od

    def comp(shape, od, text, name='tu.c'):
        nonlocal ncomp
        ncomp += 1
        rc, err = syntax(text, os.path.join(od, name), [od])
        if rc != 0:
            errs = '\n'.join(l for l in err.split('\n') if 'error' in l)[:600]
            probs.append(('compile:%s:%s' % (err_site(err), norm_err(err)), 'generated code (%s) does not compile: %s' % (shape, errs),
                          dict(replay, shape=shape, translation_unit=text, compiler_output='\n'.join(l for l in err.split('\n') if 'warning' not in l)[:3000])))
        return rc == 0

    def probe(shape, od, prefix=''):
        nonlocal ncomp
        ncomp += 1
        p = os.path.join(od, 'probe.c'); exe = os.path.join(od, 'probe')
        open(p, 'w').write(U.probe_source(schema, [rb + '_reader.h', rb + '_builder.h'], prefix, exp['lay']))
        rc, out, err = U.run(GCC + ['-O0', '-I' + os.path.join(lib.REPO, 'include'), '-I' + od, p] + list(exp.get('rt', [])) + ['-o', exe, '-lm'], timeout=300)
        if rc != 0:
            errs = '\n'.join(l for l in err.split('\n') if 'error' in l)[:600]
            probs.append(('compile:%s:%s' % (err_site(err), norm_err(err)), 'probe over generated reader (%s) does not compile: %s' % (shape, errs),
                          dict(replay, shape=shape, compiler_output=err[:3000])))
            return
        rc, out, err = U.run([exe], timeout=60)
        if rc != 0:
            probs.append(('probe-crash:%s' % shape, 'probe crashed rc=%s %s' % (rc, err[:300]), dict(replay, shape=shape))); return
        got = U.parse_probe(out)
        want = U.expected_probe(schema, exp['lay'], exp['ids'], prefix)
        for k in sorted(want):
            if got.get(k) != want[k]:
                kind = {'S': 'struct-size-align', 'F': 'struct-field-offset', 'E': 'enum-value', 'W': 'enum-width', 'I': 'field-id', 'IT': 'union-type-id',
                        'A': 'struct-constructor-argument', 'X': 'absent-field-read-as-present', 'D': 'default', 'O': 'optional', 'Z': 'scalar-size', 'V': 'vector-elem-size', 'VT': 'union-type-elem-size'}[k.split()[0]]
                probs.append(('layout:%s' % kind, '%s: compiled code says %s for `%s`, the rules say %s' % (kind, got.get(k), k, want[k]),
                              dict(replay, shape=shape, item=k, compiled=got.get(k), expected=want[k])))
                break

    allh = ''.join('#include "%s_%s.h"\n' % (rb, k) for k in KINDS) + 'int main(void) { return 0; }\n'
    # ---- split files, everything
    od = gen('all', ['-a', '--json'])
    if od:
        for k in KINDS:
            comp('all_' + k, od, '#include "%s_%s.h"\nint main(void) { return 0; }\n' % (rb, k), 'tu_%s.c' % k)
        comp('all_together', od, allh)
        probe('all', od)
        text_checks(schema, od, rb, exp, probs, replay)
    # ---- -g (only _get suffixed accessors)
    od = gen('g', ['-g', '-a', '--json'])
    if od:
        comp('g_together', od, allh); probe('g', od)
    # ---- concatenated outputs
    od = gen('stdout', ['-a', '--json', '--stdout'], out_to='all.h')
    if od: comp('stdout', od, '#include "all.h"\nint main(void) { return 0; }\n')
    ofd = os.path.join(d, 'outfile'); os.makedirs(ofd, exist_ok=True)
    od = gen('outfile', ['-a', '--json', '--outfile=' + os.path.join(ofd, 'out.h')])
    if od: comp('outfile', ofd, '#include "out.h"\nint main(void) { return 0; }\n')
    # ---- name prefix
    od = gen('prefix', ['-a', '--json', '--prefix=zz_'])
    if od:
        comp('prefix_together', od, allh); probe('prefix', od, 'zz_')
    # ---- one generator at a time (with common files and included schemas)
    singles = [('reader', ['--reader']), ('builder', ['-w']), ('verifier', ['-v']), ('jsonparser', ['--json-parser']), ('jsonprinter', ['--json-printer'])]
    if thorough: singles += [('json', ['--json']), ('rw', ['--reader', '-w', '-v'])]
    for nm, fl in singles:
        od = gen('single-' + nm, fl + ['-c', '-r'])
        if od:
            hs = sorted(f for f in os.listdir(od) if f.startswith(rb + '_') and f.endswith('.h'))
            comp('single-' + nm, od, ''.join('#include "%s"\n' % h for h in hs) + 'int main(void) { return 0; }\n')
    if thorough:
        od = gen('commonprefix', ['-a', '--json', '--common-prefix=cpx'])
        if od: comp('commonprefix', od, allh)
        od = gen('noreader', ['-a'])
        if od: comp('noreader', od, ''.join('#include "%s_%s.h"\n' % (rb, k) for k in KINDS[:3]) + 'int main(void) { return 0; }\n')
    if not probs: shutil.rmtree(d, ignore_errors=True)
    else:
        for s in os.listdir(d):
            if s != 'src': shutil.rmtree(os.path.join(d, s), ignore_errors=True)
    return {'i': i, 'problems': probs, 'compiles': ncomp}


AIMED = {
    # hand-written schemas aimed at generator paths the random ASTs reach only with some seeds
    'union_after_table': 'table T { u:U; v:[U]; }\nunion U { T, S, str:string }\nstruct S { a:int; }\nroot_type T;\n',
    'deprecated_struct_fields': 'struct A { a:byte (deprecated); }\nstruct B { x:ulong; y:int (deprecated); z:[float:2]; w:A; }\n'
                                'struct C { p:B (deprecated); q:[B:2] (deprecated); r:short; }\ntable T { c:C; }\n',
    'deprecated_sorted_vector': 'table K { k:int (key); }\nstruct S { a:int (key); }\ntable T { a:[K] (deprecated, sorted); b:[S] (sorted, deprecated); c:[int] (sorted, deprecated); d:[K] (sorted); }\n',
    'keys_nested_unionvec': 'table K { k:string (key); n:int (key); }\nstruct S { a:int (key); b:float; }\nunion U { K, S }\n'
                            'table T { n:[ubyte] (nested_flatbuffer: "K"); m:[ubyte] (nested_flatbuffer: "S"); u:[U]; ks:[K] (sorted); ss:[S] (sorted); }\nroot_type T;\n',
    'enum_aliases': 'enum E:int { A = 1, B = 1, C = 0, D = 1 }\nenum F:ubyte (bit_flags) { X = 1, Y = 1 }\nenum G:bool { N, M = false }\n'
                    'table T { e:E = B; f:F = X; g:G = N; v:[E]; }\nstruct S { e:E; f:F; }\nroot_type T;\n',
    'empty_doc_comment': '/**/table T { a:int; }\n/**/ struct S { /**/ a:int; /**/ }\n/// doc\nenum E:int { /**/ A, /** x */ B }\n/* plain */ /**/\n',
    'sorted_all_kinds': 'enum E:short { A, B }\nstruct S { a:int (key); b:ubyte; }\nstruct F { a:float (key); }\ntable K { k:string (key); n:int; }\ntable N { n:ulong (key); s:string; }\n'
                        'table T { vs:[string] (sorted); vi:[int] (sorted); vb:[ubyte] (sorted); vd:[double] (sorted); vS:[S] (sorted); vF:[F] (sorted); vK:[K] (sorted); vN:[N] (sorted); '
                        've:[E]; inner:T; u:U; uv:[U]; }\nunion U { T, K }\nroot_type T;\n',
    'keys_of_every_type': 'enum E:short { A, B }\nenum F:ubyte (bit_flags) { X, Y }\nenum G:bool { N, M }\n'
                          'table Ke { k:E (key); n:int; }\ntable Kp { a:int; k:E = B (primary_key); }\ntable Kf { k:F = X (key); }\ntable Kg { k:G = N (key); }\n'
                          + ''.join('table K%s { k:%s (key); v:string; }\n' % (t, t) for t in ('bool', 'byte', 'ubyte', 'short', 'ushort', 'int', 'uint', 'long', 'ulong', 'float', 'double'))
                          + 'struct Se { k:E (key); p:ubyte; }\nstruct Sb { k:bool (key); }\n'
                          'table T { ve:[Ke] (sorted); vp:[Kp] (sorted); vf:[Kf] (sorted); vg:[Kg]; vb:[Kbool] (sorted); vd:[Kdouble] (sorted); vu:[Kulong] (sorted); se:[Se] (sorted); sb:[Sb] (sorted); '
                          'k2:E = A (key); k3:string (key); }\nroot_type T;\n',
    'bool_enums': 'enum Flag:bool { On = 1 }\nenum Sw:bool { Off = 0, On = 1 }\nstruct S { f:Flag; s:Sw; a:[Sw:3]; }\n'
                  'table T { f:Flag = On; s:Sw = Off; vf:[Flag]; vs:[Sw]; st:S; o:Sw = null; k:Sw = On (key); }\nroot_type T;\n',
    'everything_small': 'namespace A.B;\nenum E:ushort (bit_flags) { X, Y = 4 }\nstruct S (force_align: 16) { e:E; a:[char:3]; }\nnamespace ;\n'
                        'table T { s:A.B.S (required); e:A.B.E = Y; o:long = null; f:float = -0.5 (id: 3); t:T (id: 2); x:[A.B.S] (id: 4); }\n'
                        .replace('(required)', '(required, id: 0)').replace('= Y;', '= Y (id: 1);').replace('= null;', '= null (id: 5);'),
}


def aimed_job(a):
    name, text, flatcc, bdir, thorough, rt = a
    d = os.path.join(bdir, 'aimed_' + name); shutil.rmtree(d, ignore_errors=True); os.makedirs(d)
    p = os.path.join(d, 'aim.fbs'); open(p, 'w').write(text)
    probs, n = [], 0
    tu = ''.join('#include "aim_%s.h"\n' % k for k in KINDS) + 'int main(void) { return 0; }\n'
    for shape, opts in (('all', ['-a', '--json']), ('g', ['-g', '-a', '--json']), ('commonprefix', ['-a', '--json', '--common-prefix=cpx']),
                        ('prefix', ['-a', '--json', '--prefix=zz_'])):
        od = os.path.join(d, shape); os.makedirs(od)
        rc, out, err = U.run([flatcc] + opts + ['-o', od, p], timeout=60)
        rep = {'schema_files': {'aim.fbs': text}, 'root': 'aim.fbs', 'options': opts, 'shape': shape}
        if rc != 0:
            probs.append(('schema-rejected', 'flatcc %s failed on the aimed schema %s: %s' % (' '.join(opts), name, err[:300]), rep)); continue
        n += 1
        rc, err = syntax(tu, os.path.join(od, 'tu.c'), [od])
        if rc != 0:
            errs = '\n'.join(l for l in err.split('\n') if 'error' in l)[:600]
            probs.append(('compile:%s:%s' % (err_site(err), norm_err(err)), 'generated code (%s, aimed schema %s) does not compile: %s' % (shape, name, errs),
                          dict(rep, translation_unit=tu, compiler_output='\n'.join(l for l in err.split('\n') if 'warning' not in l)[:3000])))
        elif shape in ('all', 'g') and rt:
            # LINK: every generated function (also the static / inline ones nobody calls here) must resolve against the runtime library
            n += 1
            rc2, out2, err2 = U.run(['gcc', '-std=c11', '-O0', '-w', '-DNDEBUG', '-fkeep-static-functions', '-fkeep-inline-functions',
                                     '-I' + os.path.join(lib.REPO, 'include'), '-I' + od, os.path.join(od, 'tu.c')] + list(rt) + ['-o', os.path.join(od, 'linkprobe'), '-lm'], timeout=300)
            if rc2 != 0:
                syms = sorted(set(re.findall(r"undefined reference to [`'‘]([^'’]+)['’]", err2)))
                key = 'link:undefined-reference:%s' % syms[0] if syms else 'link:%s' % norm_err(err2)
                probs.append((key, 'generated code (%s, aimed schema %s) compiles but does not LINK against the runtime library: undefined %s' % (shape, name, ', '.join(syms[:6]) or err2[-300:]),
                              dict(rep, translation_unit=tu, linker_output=err2[-2000:])))
    if not probs: shutil.rmtree(d, ignore_errors=True)
    return probs, n


def macro_args(s):
    return [x.strip() for x in s.split(',')]


def text_checks(schema, od, rb, exp, probs, replay):
    """ids, sizes, alignments as written in the generated text (reader macros, static assertions, verifier calls)"""
    txt = {}
    for fl in schema.files:
        for k in ('reader', 'verifier', 'builder'):
            p = os.path.join(od, '%s_%s.h' % (fl.name, k))
            txt[(fl.name, k)] = open(p).read() if os.path.exists(p) else ''
    lay, ids = exp['lay'], exp['ids']
    def bad(key, what, **kw): probs.append((key, what, dict(replay, **kw)))
    for d in schema.all_decls():
        c = d.cname(); r = txt[(d.file.name, 'reader')]; v = txt[(d.file.name, 'verifier')]; b = txt[(d.file.name, 'builder')]
        if d.kind == 'struct':
            offs, size, al = lay[d]
            m = re.search(r'static_assert\(sizeof\(%s_t\) == (\d+),' % re.escape(c), r)
            if not m or int(m.group(1)) != size:
                bad('text:static-assert-size', 'static assertion for %s is %s, rule says %d' % (c, m.group(1) if m else 'absent', size), struct=c); return
            m = re.search(r'(?<![A-Za-z0-9_])%s__size\(void\) \{ return (\d+); \}' % re.escape(c), r)
            if not m or int(m.group(1)) != size:
                bad('text:struct-size-fn', '%s__size returns %s, rule says %d' % (c, m.group(1) if m else 'absent', size), struct=c); return
            m = re.search(r'(?<![A-Za-z0-9_])%s_verify_as_root\(const void \*buf, size_t bufsiz\)\s*\{\s*return flatcc_verify_struct_as_root\(buf, bufsiz, [^,]+, (\d+), (\d+)\)' % re.escape(c), v)
            if m and (int(m.group(1)), int(m.group(2))) != (size, al):
                bad('text:verifier-struct', 'verifier uses size/align %s/%s for %s, rule says %d/%d' % (m.group(1), m.group(2), c, size, al), struct=c); return
        elif d.kind == 'union':
            m = re.search(r'static int %s_union_verifier\(flatcc_union_verifier_descriptor_t \*ud\)\s*\{(.*?)\n\}' % re.escape(c), v, flags=re.S)
            if not m:
                bad('text:union-verifier-missing', 'no union verifier for ' + c, union=c); return
            cases = {int(a): (fn, [x.strip() for x in args.split(',')[1:]]) for a, fn, args in re.findall(r'case (\d+): return flatcc_verify_union_(\w+)\(([^)]*)\);', m.group(1))}
            for n_, val, t_ in d.values():
                if t_ is None: continue
                got = cases.get(val)
                if t_[0] == 'string': want_u = ('string', [])
                elif t_[0] == 'table': want_u = ('table', [t_[1].cname() + '_verify_table'])
                else: want_u = ('struct', [str(lay[t_[1]][1]), str(lay[t_[1]][2])])
                if got is None or (got[0], got[1]) != want_u:
                    bad('text:union-verifier-member', 'union verifier of %s checks member %s (type %d) with %r, the rules say %r' % (c, n_, val, got, want_u), union=c, member=n_); return
        elif d.kind == 'table':
            live = {f['name']: (f, iv) for f, iv in zip(d.fields, ids[d]) if not f.get('deprecated')}
            seen = set()
            for m in re.finditer(r'^__\w*define_(\w+?)_field\(([^)]*)\)', r, flags=re.M):
                a = macro_args(m.group(2))
                if not a[0].isdigit(): a = a[1:]
                if len(a) < 3 or a[1] != c or a[2] not in live: continue
                seen.add(a[2])
                if int(a[0]) != live[a[2]][1][0]:
                    bad('text:reader-field-id', 'reader macro gives id %s to %s.%s, rule says %d' % (a[0], c, a[2], live[a[2]][1][0]), table=c, field=a[2]); return
            if seen != set(live):
                bad('text:reader-field-missing', 'reader lacks accessors for %s of %s' % (sorted(set(live) - seen), c), table=c); return
            m = re.search(r'static int %s_verify_table\(flatcc_table_verifier_descriptor_t \*td\)\s*\{(.*?)\n\}' % re.escape(c), v, flags=re.S)
            if not m:
                bad('text:verifier-missing', 'no verifier for table ' + c, table=c); return
            vs = {}
            for mm in re.finditer(r'flatcc_verify_(\w+)\(td, (\d+)((?:, [^,()]+(?:\([^)]*\))?)*)\) /\* (\w+) \*/', m.group(1)):
                vs[mm.group(4)] = (mm.group(1), int(mm.group(2)), [x.strip() for x in mm.group(3).split(',') if x.strip()])
            for nm, (f, (idv, tv)) in live.items():
                if nm not in vs:
                    bad('text:verifier-field-missing', 'verifier of %s does not check field %s' % (c, nm), table=c, field=nm); return
                fn, vid, rest = vs[nm]
                if vid != idv:
                    bad('text:verifier-field-id', 'verifier checks %s.%s at id %d, rule says %d' % (c, nm, vid, idv), table=c, field=nm); return
                t = f['type']
                want = None
                if t[0] == 'scalar': want = (G.ssize(t[1]),) * 2
                elif t[0] == 'enum': want = (G.ssize(t[1].type),) * 2
                elif t[0] == 'struct': want = (lay[t[1]][1], lay[t[1]][2])
                if want and fn == 'field' and (int(rest[0]), int(rest[1])) != want:
                    bad('text:verifier-field-size', 'verifier checks %s.%s with size/align %s, rule says %s' % (c, nm, rest[:2], want), table=c, field=nm); return
                if f.get('nested') is not None and f['nested'].kind == 'struct':
                    ns_ = f['nested']; want_n = (lay[ns_][1], lay[ns_][2])
                    if fn != 'struct_as_nested_root' or (int(rest[2]), int(rest[3])) != want_n:
                        bad('text:verifier-nested-struct-root', 'verifier checks the nested struct root %s.%s with %s%r, rule says size/align %r of %s' % (
                            c, nm, fn, rest, want_n, ns_.cname()), table=c, field=nm); return
                    mb = re.search(r'^__\w*build_nested_struct_root\(\w+, %s_%s, (\w+), (\d+),' % (re.escape(c), re.escape(nm)), b, flags=re.M)
                    if not mb or mb.group(1) != ns_.cname() or int(mb.group(2)) != want_n[1]:
                        bad('text:builder-nested-struct-align', 'builder starts the nested struct root %s.%s with type/alignment %s, rule says %s/%d' % (
                            c, nm, mb.groups() if mb else 'absent', ns_.cname(), want_n[1]), table=c, field=nm); return
                if t[0] == 'vec' and fn == 'vector_field':
                    e = t[1]
                    w = (G.ssize(e[1]),) * 2 if e[0] == 'scalar' else (G.ssize(e[1].type),) * 2 if e[0] == 'enum' else (lay[e[1]][1], lay[e[1]][2])
                    if (int(rest[1]), int(rest[2])) != w:
                        bad('text:verifier-vector-elem', 'verifier checks vector %s.%s with element size/align %s, rule says %s' % (c, nm, rest[1:3], w), table=c, field=nm); return
                    # max count: elements * size must stay below 2^32
                    mc = re.search(r'(\d+)', rest[3]);
                    if mc and int(mc.group(1)) * w[0] >= (1 << 32):
                        bad('text:verifier-vector-max', 'vector max count %s * element size %d overflows uoffset' % (mc.group(1), w[0]), table=c, field=nm); return
            # builder ids
            for mm in re.finditer(r'^__flatbuffers_build_(\w+?)_field\((\d+), \w+, %s_(\w+?),' % re.escape(c), b, flags=re.M):
                nm = mm.group(3)
                if nm in live and int(mm.group(2)) != live[nm][1][0]:
                    bad('text:builder-field-id', 'builder macro gives id %s to %s.%s, rule says %d' % (mm.group(2), c, nm, live[nm][1][0]), table=c, field=nm); return


# ---------------------------------------------------------------------- independent python rules (decision form)
def py_struct(force, members, smax, amax):
    """members: (esize, ealign, n). returns (offs,size,align) or None - the FlatBuffers rule with flatcc's limits"""
    if not members: return None
    end, al, offs = 0, 1, []
    for es, ea, n in members:
        end = -(-end // ea) * ea
        offs.append(end); end += es * n; al = max(al, ea)
        if end > smax: return None
    if force is not None:
        if force <= 0 or force > amax or force & (force - 1) or force < al: return None
        al = force
    size = -(-end // al) * al
    if size > smax: return None        # the limit covers the trailing padding too (corrected rule, see fixes/C08-struct-size-after-padding)
    return offs, size, al


def py_ids(fields, vt_max):
    """fields: (id or None, is_union). returns (list (id, tid), count) or None"""
    n = sum(2 if u else 1 for _, u in fields)
    if not fields: return [], 0
    if all(i is None for i, _ in fields):
        out, nxt = [], 0
        for _, u in fields:
            v = nxt + (1 if u else 0); out.append((v, v - 1 if u else None)); nxt = v + 1
        return out, n
    if any(i is None for i, _ in fields): return None
    slots = []
    for i, u in fields:
        slots.append(i)
        if u: slots.append(i - 1)
    if sorted(slots) != list(range(n)) or max(slots) >= vt_max: return None
    return [(i, i - 1 if u else None) for i, u in fields], n


def replay(ctx, rp, cons):
    """re-run one recorded failing input: schema files through every shape (compile only), or a struct / id-list case"""
    import json
    flatcc = ctx.flatcc()
    if 'schema_files' in rp:
        d = os.path.join(ctx.bdir, 'replay'); src = os.path.join(d, 'src'); os.makedirs(src, exist_ok=True)
        for n, t in rp['schema_files'].items(): open(os.path.join(src, n), 'w').write(t)
        root = os.path.join(src, rp.get('root') or sorted(rp['schema_files'])[0]); rb = os.path.basename(root)[:-4]
        tu = ''.join('#include "%s_%s.h"\n' % (rb, k) for k in KINDS) + 'int main(void) { return 0; }\n'
        shapes = [('all', ['-a', '--json']), ('g', ['-g', '-a', '--json']), ('prefix', ['-a', '--json', '--prefix=zz_']), ('commonprefix', ['-a', '--json', '--common-prefix=cpx'])]
        if rp.get('options'): shapes.insert(0, ('recorded', rp['options']))
        for shape, opts in shapes:
            od = os.path.join(d, shape); os.makedirs(od, exist_ok=True)
            rc, out, err = U.run([flatcc] + [o for o in opts if not o.startswith('--outfile')] + ['-I', src, '-o', od, root], timeout=120)
            ctx.count(shape, klass='replay')
            if '--stdout' in opts: continue
            if rc != 0:
                ctx.violation('schema-rejected', 'flatcc %s failed: %s' % (' '.join(opts), err[:300]), rp); continue
            hs = [k for k in KINDS if os.path.exists(os.path.join(od, '%s_%s.h' % (rb, k)))]
            rc, err = syntax(''.join('#include "%s_%s.h"\n' % (rb, k) for k in hs) + 'int main(void) { return 0; }\n', os.path.join(od, 'tu.c'), [od])
            if rc != 0:
                ctx.violation('compile:%s:%s' % (err_site(err), norm_err(err)), 'generated code (%s) does not compile: %s' % (shape, '\n'.join(l for l in err.split('\n') if 'error' in l)[:600]), rp)
    if 'model_line' in rp:
        mr = ctx.run_model('layout', [rp['model_line']])[0]
        d = os.path.join(ctx.bdir, 'replay'); os.makedirs(d, exist_ok=True)
        p = os.path.join(d, 'case.fbs'); open(p, 'w').write(rp['schema'])
        rc, out, err = U.run([flatcc, '-o', d, p], timeout=60)
        ctx.count(rp['model_line'], klass='replay')
        ctx.log('model: %s   rule: %s   flatcc rc: %s %s' % (mr, rp.get('rule'), rc, err[:200]))
        if rc < 0 or rc in (124, 134, 139): ctx.violation(rp['key'], 'flatcc died (rc %s)' % rc, rp)
        elif (rc == 0) != (rp.get('rule') != 'X') or mr != rp.get('rule'):
            ctx.violation(rp['key'], 'still disagrees: model %s, rule %s, flatcc rc %s' % (mr, rp.get('rule'), rc), rp)
    ctx.finish_args = dict(rule='replay of one recorded input', explanation='replay')


def run(ctx):
    rng = ctx.rng
    cons = U.config_consts(ctx)
    SMAX, AMAX, VT = cons['struct_max'], cons['force_align_max'], cons['vt_max']
    if ctx.replay_in:
        import json
        return replay(ctx, json.load(open(ctx.replay_in)), cons)
    ok = U.check_theorems(ctx, 'Properties_C07', U.LAYOUT_VS[:5])
    if not ok: ctx.broken_obligation('Properties_C07.vo', getattr(ctx, 'broken', {}))
    # side conditions of the theorems hold for this configuration
    if not (0 <= SMAX < 2 ** 29 and 0 <= AMAX < 2 ** 29 and VT <= 65535):
        ctx.broken_obligation('cfg_ok', 'config.h constants outside the side conditions of the C07 theorems: %r' % cons)
    flatcc = ctx.flatcc()

    # ================= A. model vs independent rule vs compiler on boundary structs / id lists
    def rnd_member():
        k = rng.random()
        if k < 0.5: s = rng.choice([1, 2, 4, 8]); return (s, s, 1, rng.choice({1: ['byte', 'ubyte', 'bool'], 2: ['short', 'ushort'], 4: ['int', 'float', 'uint'], 8: ['long', 'double', 'ulong']}[s]))
        s = rng.choice([1, 2, 4, 8])
        n = rng.choice([1, 2, 3, 7, 16, 255, 256, rng.randint(1, 70000), SMAX // s, SMAX // s + 1, SMAX // s - 1, rng.randint(1, 300)])
        return (s, s, max(1, n), rng.choice({1: ['byte', 'ubyte'], 2: ['short'], 4: ['int', 'float'], 8: ['long', 'double']}[s]))
    scases = []
    nA = 1500 if ctx.thorough else 300
    for _ in range(nA):
        ms = [rnd_member() for _ in range(rng.choice([1, 1, 2, 3, 4, 6]))]
        if rng.random() < 0.05: ms = []
        force = rng.choice([None, None, None, 1, 2, 4, 8, 16, 64, 256, 512, 3, 0, 12, 1024])
        scases.append((force, ms))
    # aimed: end of last member exactly at / around the maximum
    for end in (SMAX - 1, SMAX, SMAX + 1):
        for tail in ((1, 'ubyte'), (2, 'short'), (4, 'int'), (8, 'long')):
            for force in (None, 8, 256):
                n = end - tail[0]
                scases.append((force, [(1, 1, n, 'ubyte'), (tail[0], tail[0], 1, tail[1])]))
    lines = ['structs %d %d %s:%s' % (SMAX, AMAX, '-' if f is None else f, ','.join('s%dx%d' % (m[0], m[2]) for m in ms)) for f, ms in scases]
    mres = ctx.run_model('layout', lines)
    def struct_fbs(force, ms, name='S'):
        fs = ' '.join('m%d:%s;' % (j, m[3] if m[2] == 1 else '[%s:%d]' % (m[3], m[2])) for j, m in enumerate(ms))
        return 'struct %s%s { %s }\n' % (name, '' if force is None else ' (force_align: %d)' % force, fs)
    sd = os.path.join(ctx.bdir, 'A'); os.makedirs(sd, exist_ok=True)
    def cjob(a):
        j, text = a
        p = os.path.join(sd, 'a%d.fbs' % j); open(p, 'w').write(text)
        rc, out, err = U.run([flatcc, '-o', sd, p], timeout=60)
        size = None
        if rc == 0:
            h = open(os.path.join(sd, 'a%d_reader.h' % j)).read()
            m = re.search(r'static_assert\(sizeof\(S_t\) == (\d+),', h)
            size = int(m.group(1)) if m else -1
        return rc, size, err
    cres = U.pmap(cjob, [(j, struct_fbs(f, ms)) for j, (f, ms) in enumerate(scases)])
    for (force, ms), line, mr, (rc, csize, err) in zip(scases, lines, mres, cres):
        py = py_struct(force, [m[:3] for m in ms], SMAX, AMAX)
        ctx.count(line, klass='struct_boundary')
        mtxt = 'X' if py is None else '%s:%d:%d' % (','.join(map(str, py[0])), py[1], py[2])
        det = {'model_line': line, 'model': mr, 'rule': mtxt, 'schema': struct_fbs(force, ms), 'flatcc_rc': rc, 'flatcc_size': csize}
        if rc < 0 or rc in (124, 134, 139):
            ctx.violation('struct-crash', 'flatcc died (rc %s) on a struct declaration' % rc, det)
        elif (rc == 0) != (py is not None):
            ctx.violation('struct-accept:%s' % ('accepts-illegal' if rc == 0 else 'rejects-legal'),
                          'flatcc %s a struct the layout rule %s (force_align %s)' % ('accepts' if rc == 0 else 'rejects', 'forbids' if rc == 0 else 'allows', force), det)
        elif rc == 0 and csize != py[1]:
            ctx.violation('struct-size', 'flatcc static assertion says sizeof = %s, rule says %d' % (csize, py[1]), det)
        if mr != mtxt:
            ctx.violation('corr:struct-layout', 'extracted model and independent rule disagree: model %s, rule %s' % (mr[:80], mtxt[:80]), det)
    ctx.sample({'struct_case': lines[0], 'model': mres[0], 'flatcc_rc': cres[0][0]})

    # id lists
    icases = []
    nI = 1500 if ctx.thorough else 300
    for _ in range(nI):
        n = rng.choice([1, 2, 3, 4, 6, 9])
        us = [rng.random() < 0.3 for _ in range(n)]
        mode = rng.choice(['none', 'perm', 'perm', 'perm_broken', 'mixed', 'rand'])
        if mode == 'none': ids = [None] * n
        else:
            order = list(range(n)); rng.shuffle(order); ids = [None] * n; nxt = 0
            for k in order:
                ids[k] = nxt + (1 if us[k] else 0); nxt = ids[k] + 1
            if mode == 'perm_broken':
                k = rng.randrange(n); ids[k] = max(0, ids[k] + rng.choice([-2, -1, 1, 2, 5]))
            elif mode == 'mixed': ids[rng.randrange(n)] = None
            elif mode == 'rand': ids = [rng.randint(0, 2 * n) for _ in range(n)]
        icases.append(list(zip(ids, us)))
    icases += [[(0, True)], [(1, True)], [(2, True)], [(VT - 1, False)], [(VT, False)], [(None, True)] * 3, [(1, True), (3, True)], [(1, True), (2, True)],
               [(1, False), (2, True), (0, False)], [(0, False), (0, False)], [(0, False), (3, False), (3, False), (3, False)],
               [(1, True), (5, True), (5, False), (5, False), (5, False)], [(0, False), (2, False), (2, False)]]
    ilines = ['ids %d %s' % (VT, ' '.join(('u' if u else 'n') + ('_' if i is None else str(i)) for i, u in fs)) for fs in icases]
    ires = ctx.run_model('layout', ilines)
    def id_fbs(fs):
        return 'table X { a:int; }\nunion U { X }\ntable T { %s }\n' % ' '.join('m%d:%s%s;' % (j, 'U' if u else 'int', '' if i is None else ' (id: %d)' % i) for j, (i, u) in enumerate(fs))
    def ijob(a):
        j, text = a
        p = os.path.join(sd, 'i%d.fbs' % j); open(p, 'w').write(text)
        rc, out, err = U.run([flatcc, '-o', sd, p], timeout=60)
        got = None
        if rc == 0:
            h = open(os.path.join(sd, 'i%d_reader.h' % j)).read()
            got = {}
            for m in re.finditer(r'^__\w*define_\w+?_field\(([^)]*)\)', h, flags=re.M):
                a2 = macro_args(m.group(1))
                if not a2[0].isdigit(): a2 = a2[1:]
                if a2[1] == 'T': got[a2[2]] = int(a2[0])
        return rc, got, err
    cres = U.pmap(ijob, [(j, id_fbs(fs)) for j, fs in enumerate(icases)])
    for fs, line, mr, (rc, got, err) in zip(icases, ilines, ires, cres):
        py = py_ids(fs, VT)
        ctx.count(line, klass='id_lists')
        ptxt = 'X' if py is None else ('%d' % py[1] + ''.join(' %d:%s' % (v, '-' if t is None else t) for v, t in py[0]))
        det = {'model_line': line, 'model': mr, 'rule': ptxt, 'schema': id_fbs(fs), 'flatcc_rc': rc, 'reader_ids': got}
        if rc < 0 or rc in (124, 134, 139):
            ctx.violation('ids-crash', 'flatcc died (rc %s) on a table with id attributes' % rc, det)
        elif (rc == 0) != (py is not None):
            ctx.violation('ids-accept:%s' % ('accepts-illegal' if rc == 0 else 'rejects-legal'),
                          'flatcc %s id attributes the FlatBuffers id rule %s' % ('accepts' if rc == 0 else 'rejects', 'forbids' if rc == 0 else 'allows'), det)
        elif rc == 0 and any(got.get('m%d' % j) != v for j, (v, t) in enumerate(py[0])):
            ctx.violation('ids-value', 'generated reader ids %r differ from the rule %s' % (got, ptxt), det)
        if mr != ptxt:
            ctx.violation('corr:ids', 'extracted model and independent rule disagree: model %s, rule %s' % (mr[:80], ptxt[:80]), det)
    ctx.sample({'ids_case': ilines[3], 'model': ires[3], 'flatcc_rc': cres[3][0]})
    shutil.rmtree(sd, ignore_errors=True)

    # ================= B. generated schemas through every output shape
    nS = 320 if ctx.thorough else 30
    schemas = []
    for i in range(nS):
        size = ['small', 'medium', 'medium', 'large'][i % 4] if ctx.thorough else ['small', 'medium', 'medium'][i % 3]
        # every second schema also carries the name-resolution stress (same simple names with different layouts in ancestors and globally)
        schemas.append(G.gen_schema(random.Random(rng.getrandbits(64)), size, shadow=(i % 2 == 0)))
    # aimed AST: deprecated struct members in first / middle / last position with every combination of differently aligned neighbours,
    # plain and force_align, and embedded in other structs (member and fixed array) - the probe compares every offset
    dep = G.Schema(); dfl = G.File('depstructs'); dep.files = [dfl]
    tys = ['ubyte', 'ushort', 'ulong'] if not ctx.thorough else ['ubyte', 'ushort', 'uint', 'ulong']
    k = 0; made = []
    for t0 in tys:
        for t1 in tys:
            for t2 in tys:
                for pos in ((0,), (1,), (2,), (0, 1), (1, 2), (0, 2)):
                    for fa in (None, 16):
                        if fa and (k % 3): k += 1; continue
                        k += 1
                        st = G.Struct('D%d' % k, ['Dep'] if k % 2 else [])
                        st.fields = [{'name': 'm%d' % j, 'type': ('scalar', t)} for j, t in enumerate((t0, t1, t2))]
                        for j in pos: st.fields[j]['deprecated'] = True
                        if len(pos) == 2 and k % 4 == 0: st.fields[pos[0]]['type'] = ('array', ('scalar', st.fields[pos[0]]['type'][1]), 3)
                        st.force_align = fa
                        made.append(st)
    for j, st in enumerate(made[::7]):
        w = G.Struct('W%d' % j, []); w.fields = [{'name': 'a', 'type': ('scalar', 'ubyte'), 'deprecated': bool(j % 2)}, {'name': 'b', 'type': ('struct', st)},
                                                  {'name': 'c', 'type': ('array', ('struct', st), 2), 'deprecated': bool(j % 3 == 0)}, {'name': 'd', 'type': ('scalar', 'ubyte')}]
        made.append(w)
    tb = G.Table('Tdep', []); tb.fields = [{'name': 'f%d' % j, 'type': ('struct', st), 'attrs': []} for j, st in enumerate(made[:40])] + \
        [{'name': 'v%d' % j, 'type': ('vec', ('struct', st)), 'attrs': []} for j, st in enumerate(made[40:60])]
    # structs whose constructor takes a nested struct's members in the middle of its argument list (probe line A: argument placement)
    P0 = G.Struct('P0', []); P0.fields = [{'name': 'x', 'type': ('scalar', 'ushort')}, {'name': 'y', 'type': ('scalar', 'ubyte')}]
    P1 = G.Struct('P1', ['Dep']); P1.fields = [{'name': 'x', 'type': ('scalar', 'double')}, {'name': 'y', 'type': ('scalar', 'int')}, {'name': 'z', 'type': ('scalar', 'byte')}]
    O0 = G.Struct('O0', []); O0.fields = [{'name': 'a', 'type': ('scalar', 'ubyte')}, {'name': 'p', 'type': ('struct', P0)}, {'name': 'b', 'type': ('scalar', 'uint')},
                                          {'name': 'q', 'type': ('struct', P1)}, {'name': 'c', 'type': ('scalar', 'short')}]
    O1 = G.Struct('O1', []); O1.fields = [{'name': 'p', 'type': ('struct', P1)}, {'name': 'a', 'type': ('scalar', 'long')}, {'name': 'b', 'type': ('scalar', 'byte')}]
    O2 = G.Struct('O2', ['Dep']); O2.fields = [{'name': 'o', 'type': ('struct', O0)}, {'name': 'z', 'type': ('scalar', 'int')}, {'name': 'w', 'type': ('struct', P0)},
                                               {'name': 'f', 'type': ('scalar', 'float')}]
    made += [P0, P1, O0, O1, O2]
    fa16 = list(dict.fromkeys([x for x in made if x.force_align == 16][:6] + made[:4]))
    ud = G.Union('Udep', []); ud.members = [[x.name, ('struct', x), None, False] for x in fa16] + [['Tdep', ('table', tb), None, False], ['Sx', ('string',), None, True]]
    tb.fields += [{'name': 'n%d' % j, 'type': ('vec', ('scalar', 'ubyte')), 'nested': x, 'attrs': []} for j, x in enumerate(fa16)]
    tb.fields += [{'name': 'nt', 'type': ('vec', ('scalar', 'ubyte')), 'nested': tb, 'attrs': []}, {'name': 'ud', 'type': ('union', ud), 'attrs': []},
                  {'name': 'udv', 'type': ('vec', ('union', ud)), 'attrs': []}]
    made.append(ud)
    dfl.decls = made + [tb]; dfl.root_type = tb
    for d in dfl.decls: d.file = dfl
    schemas.append(dep); nS += 1
    # expectations from the extracted model (and the independent python computation, cross-checked)
    mlines, meta = [], []
    for s in schemas:
        ls, order, tables = s.model_lines(SMAX, AMAX, VT)
        meta.append((len(mlines), len(ls), order, tables)); mlines += ls
    mres = ctx.run_model('layout', mlines)
    rt = ctx.rt_objs()       # the probe includes the generated builder (struct constructors): link the runtime library
    jobs = []
    feats = {}
    for i, (s, (st, n, order, tables)) in enumerate(zip(schemas, meta)):
        res = mres[st:st + n]
        pyl = s.expected_structs()
        lay, ids = {}, {}
        k = 0
        if order:
            parts = res[0].split(';'); k = 1
            for sdecl, p in zip(order, parts):
                if p == 'X':
                    ctx.violation('corr:model-rejects-generated-struct', 'model rejects struct %s of a generated schema' % sdecl.name, {'schema_files': s.render()}); lay[sdecl] = pyl[sdecl]; continue
                o, sz, al = p.split(':')
                lay[sdecl] = ([int(x) for x in o.split(',')] if o else [], int(sz), int(al))
                if lay[sdecl] != (pyl[sdecl][0], pyl[sdecl][1], pyl[sdecl][2]):
                    ctx.violation('corr:struct-layout', 'model layout %r differs from the independent rule %r for %s' % (lay[sdecl], pyl[sdecl], sdecl.name), {'schema_files': s.render()})
        for t, r in zip(tables, res[k:]):
            pi = s.expected_ids(t)
            if r == 'X':
                ctx.violation('corr:model-rejects-generated-table', 'model rejects the ids of table %s' % t.name, {'schema_files': s.render()}); ids[t] = pi; continue
            f = r.split()
            ids[t] = [(int(a), None if b == '-' else int(b)) for a, b in (x.split(':') for x in f[1:])]
            if ids[t] != pi:
                ctx.violation('corr:ids', 'model ids %r differ from the independent rule %r for %s' % (ids[t], pi, t.name), {'schema_files': s.render()})
        for f in s.features: feats[f] = feats.get(f, 0) + 1
        jobs.append((i, s, flatcc, ctx.bdir, ctx.thorough, {'lay': lay, 'ids': ids, 'rt': rt}))
    ctx.log('generated %d schemas (%d structs, %d tables); running every output shape' % (nS, sum(len(m[2]) for m in meta), sum(len(m[3]) for m in meta)))
    results = U.pmap(schema_job, jobs)
    ncomp = 0
    for (probs, n), nm in zip(U.pmap(aimed_job, [(k, t, flatcc, ctx.bdir, ctx.thorough, rt) for k, t in sorted(AIMED.items())]), sorted(AIMED)):
        ncomp += n
        ctx.count('aimed:' + nm, klass='aimed_schema'); ctx.count('x', nontrivial=False, klass='gcc_translation_units', n=n)
        for key, what, det in probs: ctx.violation(key, what, det)
    for r, s in zip(results, schemas):
        ncomp += r['compiles']
        ctx.count(repr(sorted(s.render().items())), klass='schema_all_shapes')
        ctx.count('x', nontrivial=False, klass='gcc_translation_units', n=r['compiles'])
        for key, what, det in r['problems']:
            ctx.violation(key, what, det)
    ctx.cov['schema_features'] = feats
    ctx.sample({'schema': schemas[0].render(), 'compiles': results[0]['compiles']}, limit=3)
    ctx.log('%d translation units compiled' % ncomp)

    ctx.trusted = lib.DEFAULT_TRUSTED + ['gcc 12 as the judge of "compiles as C11" and of sizeof/alignof/offsetof',
                                         'gen/schema_gen.py (schema AST generator, rendering, independent python layout/id rules)',
                                         'translators/layout_consts.c (config.h constants passed to the model)']
    ctx.assumptions = ['x86-64 Linux gcc ABI for sizeof/alignof of generated structs', 'names do not collide with C keywords or generated suffixes (generator guarantees)',
                       'FLATCC_OFFSET_SIZE 4, FLATCC_VOFFSET_SIZE 2 (read from config.h on every run)',
                       '"compiles without error" is decided by gcc on the sampled schemas (not a theorem about the generated text)']
    ctx.finish_args = dict(
        rule='A: random + aimed struct member lists (sizes around FLATCC_STRUCT_MAX_SIZE, all force_align classes) and id-attribute lists (permutations, broken '
             'permutations, hidden type slot conflicts, mixed) - model == independent rule == flatcc accept/reject and numbers; B: generated schemas x output shapes '
             '(split reader/builder/verifier/json parser/json printer one by one and together, -a, -g, --stdout, --outfile, --prefix, single generators with -c -r) '
             'compiled by gcc -std=c11 -Wall -Wextra -Werror=implicit-function-declaration, probe run for default/-g/--prefix. distinct = distinct request lines / schemas',
        explanation='Properties_C07 theorems re-checked; extracted model compared with an independent python rule and with what the compiled generated code '
                    'reports (sizeof, alignof, offsetof, vtable slot read by each accessor, defaults, enum constants, vector element sizes) and with ids/sizes in '
                    'reader macros, static assertions, verifier and builder text')
