"""C12 - Emit calls form one contiguous stream and the default emitter returns it intact.

1. T1 constants (EMITTER_PAGE_SIZE, IOV_COUNT_MAX) -> coq/Generated/Consts.v; re-check Properties_C12.vo
   (part A: page ring of emitter.c refines a double-ended byte stream; part B: emit_front / emit_back stream shape).
2. Part A correspondence: harness/emitter_diff.c (emitter.c included as source, counting/failing page allocator,
   ASan+UBSan) against the extracted model on the same sessions of front/back emits, resets, spare-page recycling,
   allocation failures - for the default page size and for small page sizes where every page-boundary residue is swept.
   Independently of the model every observation is judged against the property statement itself (python byte deque):
   copy bytes = stream, copy returns the caller's pointer, direct buffer = stream, reported size = stream length.
3. Part B: harness/emit_record.c (builder.c included as source): emit_front / emit_back driven directly at 32-bit
   boundary values on gcc -O2 and clang -O2 builds against the model (guard as written / fixed) and against the shape
   statement; builder scenarios under a recording custom emitter (shape of every emit call) whose stream is compared
   with direct/copy/finalize/aligned-finalize of the default emitter, with builder reset and reuse in between; multi-GiB
   histories with a recording emitter that does not touch the data; source scan of the iov call sites vs the model.
"""
import os, re, json
from . import lib
from . import c12_util as U

INT_MIN, INT_MAX = -2 ** 31, 2 ** 31 - 1


def hx(bs):
    return bytes(bs).hex() if len(bs) else '-'


TOK = re.compile(r'\{[^}]*\}|\S+')


def parse_obs(tok):
    d = {}
    for kv in tok[1:-1].split(' '):
        k, _, v = kv.partition('=')
        d[k] = v
    return d


# ------------------------------------------------------------------------------------------------ part A
class Session:
    """ops: list of tuples ('f'|'b', [bytes..]) | ('r',) | ('y', i) | ('Y', i) | ('z',) | ('c',) | ('A', k) | ('o',)"""
    def __init__(self, klass, ops):
        self.klass, self.ops = klass, ops

    def line(self):
        t = []
        for o in self.ops:
            if o[0] in 'fb': t.append(o[0] + ':' + ','.join(hx(p) for p in o[1]))
            elif o[0] in 'rR': t.append('r')
            elif o[0] == 'o': t.append('o')
            elif o[0] in 'zc': t.append(o[0])
            else: t.append('%s:%d' % (o[0], o[1]))
        return ' '.join(t)


def boundary_size(rng, P, big=4):
    c = rng.randrange(12)
    if c == 0: return rng.choice([1, 2, 3, 4])
    if c == 1: return max(0, P // 2 + rng.randint(-3, 3))
    if c == 2: return max(0, P + rng.randint(-3, 3))
    if c == 3: return max(0, rng.randint(1, big) * P + rng.randint(-3, 3))
    if c == 4: return max(0, rng.randint(1, big) * P + P // 2 + rng.randint(-3, 3))
    if c == 5: return rng.randint(0, P)
    if c == 6: return rng.randint(0, big * P)
    if c == 7: return rng.choice([4, 8, 12, 16, 24, 32])
    if c == 8: return max(0, P // 2 - rng.randint(0, 40))
    return rng.randint(1, max(2, P // 3))


def split_pieces(rng, data, allow_empty=False):
    n = rng.choice([1, 1, 2, 3, 3, 4, 8])
    if len(data) == 0: return []          # the builder never emits a call of total length 0 (part B)
    cuts = sorted(rng.randint(0 if allow_empty else 1, len(data)) for _ in range(n - 1))
    out, prev = [], 0
    for c in cuts + [len(data)]:
        if c > prev or allow_empty: out.append(data[prev:c])
        prev = max(prev, c)
    return [p for p in out if allow_empty or len(p)] or [data]


def random_session(rng, P, nops, klass, obs_every=3, allow_empty=False, big=4, with_fail=False):
    ops = []
    for i in range(nops):
        c = rng.randrange(20)
        if c < 8 or c >= 12 and c < 17:
            d = 'f' if c < 8 else 'b'
            if rng.randrange(4) == 0: d = rng.choice('fb')
            data = rng.randbytes(boundary_size(rng, P, big))
            pcs = split_pieces(rng, data, allow_empty)
            if pcs: ops.append((d, pcs))
        elif c < 10:
            ops.append(('o',)); ops.append(('r',)); ops.append(('o',))
            if rng.randrange(2): ops.append(rng.choice([('y', rng.randrange(3)), ('z',)]))
        elif c == 10:
            ops.append(('y', rng.randrange(4)))
        elif c == 11:
            ops.append(rng.choice([('Y', 0), ('z',), ('z',), ('c',)]))
        elif c == 17 and with_fail:
            ops.append(('A', rng.randrange(3)))
        else:
            ops.append(('o',))
        if obs_every and i % obs_every == obs_every - 1: ops.append(('o',))
    ops.append(('o',))
    return Session(klass, ops)


def judge_session(ctx, P, variant, s, ireply, mreply, state):
    """Property oracle on the implementation's reply, then model/implementation comparison."""
    line = s.line()
    replay = {'harness': 'emitter_diff', 'page_size': P, 'variant': variant, 'harness_line': line if len(line) < 20000 else line[:20000] + '...',
              'class': s.klass}
    if ireply == 'SKIP': return      # not run: the budget of hanging / crashing sessions was used up (violations already recorded)
    if ireply.startswith('CRASH') and 'HANG' in ireply:
        ctx.violation('hang:emitter', 'a request to the default emitter does not return (page ring no longer closes?): session of class %s, page size %d' % (s.klass, P),
                      dict(replay, ops=[o[0] if o[0] not in 'fb' else '%s%d' % (o[0], sum(len(x) for x in o[1])) for o in s.ops]))
        return
    if ireply.startswith('CRASH'):
        ctx.violation('crash:emitter', 'sanitizer report / crash in emitter.c: ' + ireply[:300], dict(replay, stderr=ireply))
        return
    it, mt = TOK.findall(ireply), TOK.findall(mreply)
    stream = bytearray()
    fired = False
    fresh = True       # no page ever allocated: copy_buffer returns null on the empty, never-used emitter
    k = 0
    for o in s.ops:
        if k >= len(it): break
        tok = it[k]; k += 1
        if o[0] in 'fb':
            if tok == 'FAIL': break
            data = b''.join(o[1])
            if o[0] == 'f': stream[0:0] = data
            else: stream += data
            if len(data): fresh = False
        elif o[0] == 'r':
            stream = bytearray()
        elif o[0] == 'c':
            stream = bytearray(); fresh = True
            if tok != 'c0':
                fired = True
                ctx.violation('clear-leaks-pages', 'pages still allocated after flatcc_emitter_clear: ' + tok, replay)
        elif o[0] == 'o':
            ob = parse_obs(tok)
            want = hx(stream)
            def viol(key, what):
                nonlocal fired
                fired = True
                ctx.violation(key, what, dict(replay, observation=tok[:600], expected_stream_len=len(stream)))
            if ob.get('size') != str(len(stream)):
                viol('buffer-size', 'flatcc_emitter_get_buffer_size = %s but %d bytes were emitted (page size %d)' % (ob.get('size'), len(stream), P))
            if ob.get('copy') == 'null':
                if not (fresh and len(stream) == 0):
                    viol('copy-buffer-null', 'flatcc_emitter_copy_buffer returned null for a buffer of exactly the reported size (%d bytes)' % len(stream))
            else:
                if ob.get('copy') != want:
                    viol('copy-buffer-bytes', 'flatcc_emitter_copy_buffer wrote bytes that differ from the emitted stream (%d bytes, page size %d)' % (len(stream), P))
                if ob.get('ret') != '0':
                    viol('copy-buffer-return-pointer', 'flatcc_emitter_copy_buffer returned caller pointer + %s instead of the caller\'s pointer (%d bytes over %s pages, page size %d)'
                         % (ob.get('ret'), len(stream), ob.get('pages'), P))
            if ob.get('small', '-') not in ('-', 'null'):
                viol('copy-buffer-too-small', 'flatcc_emitter_copy_buffer with a buffer one byte too small: ' + ob.get('small'))
            if ob.get('direct') != 'null':
                if ob.get('direct') != want or ob.get('dsize') != str(len(stream)):
                    viol('direct-buffer-bytes', 'flatcc_emitter_get_direct_buffer returned %s bytes that are not the emitted stream (%d bytes)' % (ob.get('dsize'), len(stream)))
            if ob.get('ring') != '0':
                viol('ring-links', 'page ring next/prev links are inconsistent')
    if it and it[-1].startswith('live=') and it[-1] != 'live=0':
        fired = True
        ctx.violation('clear-leaks-pages', 'pages still allocated after flatcc_emitter_clear: ' + it[-1], replay)
    # model vs implementation, field by field (the returned pointer is judged by the property above only)
    if len(it) != len(mt):
        if not fired:
            ctx.violation('corr:emitter-tokens', 'model and implementation produce a different number of results (%d vs %d): impl ...%s model ...%s'
                          % (len(it), len(mt), ' '.join(it)[-200:], ' '.join(mt)[-200:]), dict(replay, impl=ireply[:3000], model=mreply[:3000]))
        return
    for a, b in zip(it, mt):
        if a == b: continue
        if a.startswith('{') and b.startswith('{'):
            da, db = parse_obs(a), parse_obs(b)
            # not compared: ret (judged by the property above); cap, avg (capacity accounting / used_average: bookkeeping of the pool policy)
            diff = [f for f in da if da.get(f) != db.get(f) and f not in ('ret', 'cap', 'avg')]
            if not diff: continue
            if fired: return
            f = diff[0]
            ctx.violation('corr:emitter-%s' % f, 'model and implementation disagree on `%s` (impl %s, model %s; page size %d; other differing fields %s)'
                          % (f, da.get(f, '')[:80], db.get(f, '')[:80], P, diff[1:]), dict(replay, impl=a[:3000], model=b[:3000]))
            return
        if fired: return
        ctx.violation('corr:emitter-result', 'model and implementation disagree on an operation result (impl %s, model %s; page size %d)' % (a[:80], b[:80], P),
                      dict(replay, impl=ireply[:3000], model=mreply[:3000]))
        return


def build_emitter_harness(ctx, P, default):
    defs = ['-DNDEBUG'] + ([] if default else ['-DFLATCC_EMITTER_PAGE_SIZE=%d' % P])
    exe = os.path.join(ctx.bdir, 'emitter_diff_%d' % P)
    ctx.cc([os.path.join(lib.ROOT, 'harness', 'emitter_diff.c')], exe, san=True, defs=defs,
           incs=['-I%s/src/runtime' % lib.REPO, '-I' + os.path.join(lib.ROOT, 'harness')])
    return lib.Harness(exe)


def part_a_sessions(ctx, P, default, traces):
    rng = ctx.rng
    ss = []
    T = ctx.thorough
    if not default:
        # every residue of the front/back split around one and two page boundaries
        top = 2 * P + 2 if P <= 16 or T else P + P // 2 + 2
        step = 1 if P <= 16 or T else 3
        for f in range(0, top, step):
            for b in range(0, top, step if P <= 16 else 5):
                ops = []
                if f: ops.append(('f', [rng.randbytes(f)]))
                if b: ops.append(('b', [rng.randbytes(b)]))
                ops += [('o',), ('r',), ('o',)]
                if (f + b) % 3 == 0 and b: ops += [('b', [rng.randbytes(b)]), ('f', [rng.randbytes(f + 1)]), ('o',)]
                ss.append(Session('residue_sweep', ops))
        # the same residues reached in small steps (cursor at every position when the page boundary is hit)
        for stepsz in (1, 2, 3, 5, 7):
            for d in 'fb':
                ops = []
                for i in range((3 * P) // stepsz + 2):
                    ops.append((d, [rng.randbytes(stepsz)]))
                    if i % 4 == 3: ops.append(('o',))
                ops.append(('o',))
                ss.append(Session('stepwise', ops))
        nrand = (4000 if T else 300)
        for i in range(nrand):
            ss.append(random_session(rng, P, rng.randint(2, 14), 'random_mix', obs_every=2, big=4))
        for i in range(nrand // 4):
            ss.append(random_session(rng, P, rng.randint(2, 10), 'empty_pieces', obs_every=2, allow_empty=True))
        for i in range(nrand // 3):
            ss.append(random_session(rng, P, rng.randint(3, 12), 'alloc_fail', obs_every=3, with_fail=True))
    else:
        # residues straddling the page boundary for the real page size: front / back amounts around k*P/2 +- d
        deltas = [-2, -1, 0, 1, 2] if not T else list(range(-6, 7))
        for kf in (0, 1, 2, 3, 5):
            for kb in (0, 1, 2, 4):
                for d in (deltas if (kf + kb) % 2 else deltas[1:4]):
                    f = max(0, kf * P // 2 + d); b = max(0, kb * P // 2 - d)
                    ops = []
                    if f: ops.append(('f', split_pieces(rng, rng.randbytes(f))))
                    if b: ops.append(('b', split_pieces(rng, rng.randbytes(b))))
                    ops += [('o',), ('r',)]
                    if d == 0: ops += [('f', [rng.randbytes(7)]), ('o',)]
                    ss.append(Session('residue_default_page', ops))
        nrand = 2000 if T else 90
        for i in range(nrand):
            ss.append(random_session(rng, P, rng.randint(2, 9), 'random_mix', obs_every=4, big=3))
        for i in range(nrand // 6):
            ss.append(random_session(rng, P, rng.randint(2, 6), 'empty_pieces', obs_every=4, allow_empty=True, big=2))
        for i in range(nrand // 5):
            ss.append(random_session(rng, P, rng.randint(3, 8), 'alloc_fail', obs_every=4, with_fail=True, big=3))
        # emit-call shapes recorded from real builder scenarios (piece sizes and directions), random bytes
        for tr in traces:
            ops = []
            for i, c in enumerate(tr.split(';')):
                if not c: continue
                pcs = [rng.randbytes(int(x)) for x in c[1:].split(',') if x]
                if pcs: ops.append((c[0], pcs))
            ops += [('o',), ('r',), ('o',)]
            ss.append(Session('builder_trace', ops))
    # recycling the spare page directly before the front page, then growing the front over further page boundaries
    for i in range(40 if T else 12):
        big = rng.randint(2, 5)
        ops = [('f', split_pieces(rng, rng.randbytes(big * P + rng.randint(0, P)))), ('b', [rng.randbytes(rng.randint(1, P))]), ('o',), ('r',), ('z',)]
        if i % 3 == 0: ops += [('z',), ('y', 0), ('z',)]
        for j in range(rng.randint(2, 5)):
            ops.append((rng.choice('ffb'), split_pieces(rng, rng.randbytes(rng.randint(P // 2, 2 * P)))))
            if j % 2: ops.append(('o',))
        ops += [('o',), ('r',), ('f', [rng.randbytes(3 * P)]), ('o',)]
        ss.append(Session('recycle_before_front', ops))
    # flatcc_emitter_clear on an application-owned emitter that is used on without re-initialisation
    for i in range(40 if T else 12):
        ops = [('f', split_pieces(rng, rng.randbytes(boundary_size(rng, P, 3) + 1))), ('b', [rng.randbytes(rng.randint(1, P))]), ('o',), ('c',), ('o',)]
        ops += [(rng.choice('fb'), split_pieces(rng, rng.randbytes(boundary_size(rng, P, 2) + 1))), ('o',)]
        if i % 2: ops += [('r',), ('c',), ('c',), ('b', [rng.randbytes(7)]), ('f', [rng.randbytes(P)]), ('o',)]
        ss.append(Session('clear_reuse', ops))
    return ss


def run_part_a(ctx, P, default, traces):
    H = build_emitter_harness(ctx, P, default)
    rc, res, err = H.run(['P'])
    if not res or res[0] != str(P):
        raise lib.CheckError('emitter_diff reports page size %s, expected %d' % (res, P))
    ss = part_a_sessions(ctx, P, default, traces)
    lines = [s.line() for s in ss]
    ires = U.run_resilient(H, lines)
    # the reset pool policy (how many spare pages a reset keeps) is an oracle input of the model: pass what the
    # implementation was observed to do (reply token r<kept>) on to the model (request token r:<kept>)
    mlines = []
    for s, l, a in zip(ss, lines, ires):
        it = TOK.findall(a) if not a.startswith(('CRASH', 'SKIP')) else []
        toks = l.split(' ')
        for j, o in enumerate(s.ops):
            if o[0] == 'r' and j < len(it) and re.fullmatch(r'r\d+', it[j]): toks[j] = 'r:' + it[j][1:]
        mlines.append('em %d %s' % (P, ' '.join(toks)))
    mres = ctx.run_model('emitter', mlines)
    for s, l, a, b in zip(ss, lines, ires, mres):
        ctx.count('%d %s' % (P, l), klass='%s/P=%d' % (s.klass, P) if not default else s.klass)
        judge_session(ctx, P, 'default' if default else 'P=%d' % P, s, a, b, None)
    if default and ss:
        ctx.sample({'emitter_session': lines[3][:300], 'impl': ires[3][:400], 'model': mres[3][:400]})
    return len(ss)


# ------------------------------------------------------------------------------------------------ part B
def shape_of_direct(kind, start, end, lens, reply):
    """Judge one direct emit_front/emit_back result against the property statement. Returns (key, what) or None."""
    d = dict(kv.split('=', 1) for kv in reply.split(' '))
    ret, nstart, nend = int(d['ret']), int(d['start']), int(d['end'])
    pieces = [l for l in lens if l > 0]
    if d['call'] == 'none':
        return None
    cnt, off, ln, pcs = d['call'].split(':')
    cnt, off, ln = int(cnt), int(off), int(ln)
    got = [] if pcs == '-' else [int(x) for x in pcs.split(',')]
    if not pieces and kind == 'eb':
        return None     # emit_back on an empty iov: no call site does that (align_buffer_end tests end_pad, vtables have >= 4 bytes)
    if cnt <= 0: return ('emit-empty-call', 'emit called with count=%d len=%d' % (cnt, ln))
    if cnt != len(pieces) or got != pieces or ln != sum(pieces) or any(p == 0 for p in got):
        return ('emit-pieces', 'emit called with count=%d pieces=%s len=%d for pushed sizes %s' % (cnt, got, ln, lens))
    if kind == 'ef':
        if off >= 0 or off + ln != start:
            if ln > 2 ** 32:
                return ('emit-front-len-wrap', 'emit_front with emit_start=%d and len=%d calls emit at offset %d: offset+len is not the previous start (length truncated to 32 bits)' % (start, ln, off))
            return ('emit-front-overflow-unchecked', 'emit_front with emit_start=%d and len=%d calls emit at offset %d: the 32-bit range is exceeded and the overflow test did not fire' % (start, ln, off))
        if ret != 0 and nstart != off:
            return ('emit-front-state', 'emit_front returned %d but emit_start is %d after a call at offset %d' % (ret, nstart, off))
    else:
        if off != end or off < 0:
            return ('emit-back-offset', 'emit_back with emit_end=%d calls emit at offset %d' % (end, off))
        if end + ln > INT_MAX or (ret != 0 and nend != end + ln):
            return ('emit-back-overflow-unchecked', 'emit_back with emit_end=%d and len=%d succeeds and leaves emit_end=%d: the 32-bit range is exceeded and the overflow test did not fire' % (end, ln, nend))
    return None


def direct_cases(rng, thorough):
    cases = []
    def add(kind, start, end, acc, lens): cases.append((kind, start, end, acc, lens))
    big = [2 ** 31 - 1, 2 ** 31, 2 ** 31 + 1, 2 ** 32 - 1, 2 ** 32, 2 ** 32 + 1, 2 ** 32 + 15, 2 ** 32 + 16, 2 ** 32 + 17, 2 ** 33]
    starts = [0, -1, -4, -100, -2 ** 30, INT_MIN + 2 ** 20, INT_MIN + 100, INT_MIN + 1, INT_MIN]
    for s in starts:
        for l in [1, 4, 99, 100, 101, 2 ** 20, 2 ** 30, 2 ** 31 - 100] + big:
            add('ef', s, rng.choice([0, 8, 64]), 1, [l])
        for l in [-s - 2 ** 31 - 1, -s - 2 ** 31, -s - 2 ** 31 + 1]:
            l = s + 2 ** 31 + rng.choice([-1, 0, 1])
            if l > 0: add('ef', s, 0, 1, [l])
    for e in [0, 4, 100, 2 ** 30, INT_MAX - 65536, INT_MAX - 100, INT_MAX - 1, INT_MAX]:
        for l in [1, 2, 4, 10, 99, 100, 101, 4096, 65534, 65535]:
            add('eb', rng.choice([0, -8, -1000]), e, 1, [l])
    n = 3000 if thorough else 500
    for _ in range(n):
        k = rng.choice(['ef', 'ef', 'eb'])
        np_ = rng.randint(0, 8)
        lens = [rng.choice([0, 0, 1, 2, 4, rng.randint(1, 300), rng.randint(1, 2 ** 16)]) for _ in range(np_)]
        if k == 'ef' and rng.randrange(6) == 0 and lens: lens[rng.randrange(len(lens))] = rng.choice(big + [2 ** 31 - rng.randint(1, 300), 2 ** 32 - rng.randint(1, 300), 2 ** 32 + rng.randint(1, 40)])
        s = rng.choice([0, -rng.randint(1, 2 ** 12), -rng.randint(1, 2 ** 31), INT_MIN + rng.randint(0, 400)])
        e = rng.choice([0, rng.randint(0, 2 ** 12), rng.randint(0, INT_MAX), INT_MAX - rng.randint(0, 70000)])
        add(k, s, e, rng.choice([1, 1, 1, 0]), lens)
    return cases


def scan_sites(txt):
    """(pushes, front, back) for every init_iov() block of builder.c, in source order."""
    out = []
    blocks = re.split(r'\binit_iov\(\);', txt)[1:]
    for b in blocks:
        m = re.search(r'^[^\n]*\n(?:.*?\n)*?\}\n', b)   # up to the end of the enclosing function
        body = b[:m.end()] if m else b
        n = len(re.findall(r'\bpush_iov(?:_cond)?\(', body))
        out.append((n, bool(re.search(r'\bemit_front\(', body)), bool(re.search(r'\bemit_back\(', body))))
    return out


def judge_round(ctx, l, tag, rd, dd, replay, traces):
    """One build of a scenario: the recording emitter's view (rd) against the default emitter's copy-out (dd). False = violation reported."""
    if rd['rc'] != '0' or dd['rc'] != '0':
        ctx.violation('scenario-build-failed', 'builder scenario `%s` round %s failed to build (rc %s / %s)' % (l, tag, rd['rc'], dd['rc']), replay); return False
    if 'trace' in rd and rd['trace'] != '-' and rd['shape'] == 'ok' and len(traces) < (40 if ctx.thorough else 12): traces.append(rd['trace'])
    if rd['shape'] != 'ok':
        ctx.violation('emit-stream-shape', 'builder scenario `%s` round %s: emit call violates the stream shape: %s' % (l, tag, rd['shape']), replay); return False
    if rd['bstart'] != rd['start'] or rd['bend'] != rd['end']:
        ctx.violation('buffer-range', 'builder scenario `%s` round %s: flatcc_builder_get_buffer_start/end = %s/%s but the emit calls cover %s..%s'
                      % (l, tag, rd['bstart'], rd['bend'], rd['start'], rd['end']), replay); return False
    if not (rd['rsize'] == rd['bsize'] == dd['size']) or int(rd['end']) - int(rd['start']) != int(rd['rsize']):
        ctx.violation('buffer-size', 'builder scenario `%s` round %s: recorded stream %s bytes, builder reports %s / %s' % (l, tag, rd['rsize'], rd['bsize'], dd['size']), replay); return False
    if dd['direct'] == 'ne' or (dd['direct'] == 'eq' and dd['dsize'] != rd['rsize']):
        ctx.violation('direct-buffer-bytes', 'builder scenario `%s` round %s: flatcc_builder_get_direct_buffer differs from the recorded stream' % (l, tag), replay); return False
    if dd['copyret'] == 'null' or dd['copy'] != 'eq':
        ctx.violation('copy-buffer-bytes', 'builder scenario `%s` round %s: flatcc_builder_copy_buffer %s' % (l, tag, 'returned null' if dd['copyret'] == 'null' else 'differs from the recorded stream'), replay); return False
    if dd['copyret'] != '0':
        ctx.violation('copy-buffer-return-pointer', 'flatcc_builder_copy_buffer returned caller pointer + %s instead of the caller\'s pointer (buffer of %s bytes, scenario `%s` round %s)'
                      % (dd['copyret'], dd['size'], l, tag), replay)
    if dd['fin'] != 'eq' or dd['fsize'] != rd['rsize']:
        ctx.violation('finalize-buffer-bytes', 'builder scenario `%s` round %s: flatcc_builder_finalize_buffer %s (size %s, stream %s)' % (l, tag, dd['fin'], dd['fsize'], rd['rsize']), replay); return False
    if dd['afin'] != 'eq' or dd['asize'] != rd['rsize'] or dd['aal'] != 'ok':
        ctx.violation('finalize-aligned-buffer-bytes', 'builder scenario `%s` round %s: flatcc_builder_finalize_aligned_buffer %s (size %s, stream %s, alignment %s)'
                      % (l, tag, dd['afin'], dd['asize'], rd['rsize'], dd['aal']), replay); return False
    return True


def run_part_b(ctx, consts):
    rng = ctx.rng
    hdir = os.path.join(lib.ROOT, 'harness')
    srcs = [os.path.join(hdir, 'emit_record.c'), os.path.join(lib.REPO, 'src/runtime/refmap.c')]   # builder.c and emitter.c are included as source
    incs = ['-I%s/src/runtime' % lib.REPO, '-I' + hdir]
    builds = {}
    builds['san'] = lib.Harness(ctx.cc(srcs, os.path.join(ctx.bdir, 'emit_record_san'), san=True, defs=['-DNDEBUG'], incs=incs))
    builds['gcc-O2'] = lib.Harness(ctx.cc(srcs, os.path.join(ctx.bdir, 'emit_record_gcc'), defs=['-DNDEBUG'], incs=incs, opt='-O2', compiler='gcc'))
    builds['clang-O2'] = lib.Harness(ctx.cc(srcs, os.path.join(ctx.bdir, 'emit_record_clang'), defs=['-DNDEBUG'], incs=incs, opt='-O2', compiler='clang'))

    # ---- inventory of the iov call sites (clang AST after preprocessing; regex scan only if clang gives no AST) against the
    #      model's inventory and FLATCC_IOV_COUNT_MAX.  A mismatch is NOT a verdict: it means the theorems talk about other call
    #      sites than the code has, so the scenario search below is widened; only if that finds no concrete stream-shape
    #      failure is the mismatch reported, as an obligation that no longer checks (no-failing-input-found).
    sites, serr = U.ast_sites(lib.REPO)
    how = 'clang AST'
    if sites is None:
        ctx.log('site inventory: %s; falling back to the text scan' % serr)
        sites, how = scan_sites(open(os.path.join(lib.REPO, 'src/runtime/builder.c')).read()), 'text scan'
    inv = ctx.run_model('emitter', ['sites'])[0]
    minv = [(int(a), f == 'F', b == 'B') for a, f, b in (x.split(':') for x in inv.split(';'))]
    ctx.count('sites ' + repr(sites), klass='site_inventory')
    iovmax = consts.get('IOV_COUNT_MAX', 8)
    inventory_problem = None
    if any(n > iovmax for n, f, b in sites):
        inventory_problem = 'a call site of builder.c pushes more iov pieces than FLATCC_IOV_COUNT_MAX = %d: %s (%s)' % (iovmax, sites, how)
    elif sites != minv:
        inventory_problem = 'iov call sites of builder.c (pushes, front, back) %s (%s) differ from the model inventory %s' % (sites, how, minv)
    if inventory_problem: ctx.log('site inventory obligation no longer checks: ' + inventory_problem + '; widening the scenario search')

    # ---- histories beyond the 32-bit range, recording emitter that does not read the data
    bigs = [('big str 4294967295', 'emit-front-len-wrap'), ('big str 4294967290', 'emit-front-len-wrap'), ('big str 4294967280', 'emit-front-len-wrap'),
            ('big str 2147483647', 'emit-front-overflow-unchecked'), ('big str 2147483630', 'emit-front-overflow-unchecked'),
            ('big fill 805306368 4', 'emit-front-overflow-unchecked'), ('big fill 1073741800 5', 'emit-front-overflow-unchecked'),
            ('big fill 65536 40000', 'emit-front-overflow-unchecked'), ('big vt 40000', 'emit-back-overflow-unchecked')]
    for bname in ('gcc-O2', 'clang-O2'):
        res = lib.run_harness_resilient(builds[bname], [b for b, _ in bigs])
        for (l, key), r in zip(bigs, res):
            ctx.count(bname + ' ' + l, klass='beyond_32bit/%s' % bname)
            replay = {'harness': 'emit_record', 'build': bname, 'harness_line': l, 'impl': r}
            if r.startswith('CRASH'):
                ctx.violation('crash:emit-big', 'emit_record crashed on `%s`: %s' % (l, r[:200]), replay); continue
            d = dict(kv.split('=', 1) for kv in r.split(' '))
            if d['shape'] != 'ok':
                ctx.violation(key, 'history `%s`: the emit calls leave the contiguous range: %s (emit_start=%s emit_end=%s after %s accepted calls) [%s build]'
                              % (l, d['shape'], d['bstart'], d['bend'], d['accepted'], bname), replay)
            elif not (INT_MIN <= int(d['bstart']) <= 0 <= int(d['bend']) <= INT_MAX):
                ctx.violation(key, 'history `%s`: emit_start=%s emit_end=%s outside the signed range' % (l, d['bstart'], d['bend']), replay)

    # ---- emit_front / emit_back directly at boundary values, optimised builds of both compilers
    cases = direct_cases(rng, ctx.thorough)
    ilines = ['%s %d %d %d %s' % (k, s, e, a, ','.join(str(x) for x in lens) if lens else '-') for k, s, e, a, lens in cases]
    mc = ctx.run_model('emitter', ['%s c %s' % (l.split(' ', 1)[0], l.split(' ', 1)[1]) for l in ilines])
    mf = ctx.run_model('emitter', ['%s f %s' % (l.split(' ', 1)[0], l.split(' ', 1)[1]) for l in ilines])
    for bname in ('gcc-O2', 'clang-O2'):
        res = lib.run_harness_resilient(builds[bname], ilines)
        for (k, s, e, a, lens), l, r, c, f in zip(cases, ilines, res, mc, mf):
            ctx.count(bname + ' ' + l, klass='direct_%s/%s' % (k, bname))
            replay = {'harness': 'emit_record', 'build': bname, 'harness_line': l, 'impl': r, 'model_as_written': c, 'model_fixed': f}
            if r.startswith('CRASH') or r == 'BAD':
                ctx.violation('crash:emit-direct', 'emit_record crashed on `%s`: %s' % (l, r[:200]), replay); continue
            v = shape_of_direct(k, s, e, lens, r)
            if v:
                ctx.violation(v[0], v[1] + ' [%s build]' % bname, replay); continue
            # the implementation must behave like the model with the guard as written or like the fixed one; on a refused
            # emit_back the value left in emit_end is not compared (the fix leaves it untouched)
            def norm(x):
                d = dict(kv.split('=', 1) for kv in x.split(' '))
                if k == 'eb' and d['ret'] == '0' and d['call'] == 'none': d['end'] = '*'
                return d
            if norm(r) != norm(c) and norm(r) != norm(f):
                ctx.violation('corr:emit-%s' % ('front' if k == 'ef' else 'back'),
                              'model and implementation disagree on `%s`: impl %s, model (guard as written) %s, model (fixed guard) %s [%s build]' % (l, r, c, f, bname), replay)
    ctx.sample({'direct_case': ilines[5], 'impl(gcc)': lib.run_harness_resilient(builds['gcc-O2'], [ilines[5]])[0], 'model': mc[5]})

    # ---- builder scenarios: recording emitter vs default emitter copy-out, reset and reuse
    P = consts['EMITTER_PAGE_SIZE']
    scs = []
    n = 400 if (ctx.thorough or inventory_problem) else 70
    for i in range(n):
        ws, idf, cl = rng.randrange(2), rng.randrange(2), rng.randrange(4) != 0
        ba = rng.choice([0, 0, 0, 8, 16, 64, 256])
        nn = rng.choice([0, 0, 1, 2, 3])
        ns = rng.choice([0, 1, 2, 5, 10, 30])
        mode = rng.randrange(4)
        if mode == 0: sl, sv = rng.randint(0, 40), rng.randint(0, 200)                      # small: single page, direct buffer
        elif mode == 1: sl, sv = rng.randint(0, 60), max(0, P // 2 + rng.randint(-120, 40))   # around half a page
        elif mode == 2: sl, sv = max(0, P // 2 + rng.randint(-30, 30)), max(0, P + rng.randint(-20, 20))
        else: sl, sv = rng.randint(0, 3000), rng.randint(0, 4 * P)
        sstep = rng.choice([0, 1, 3, 17, 100])
        nt = rng.choice([0, 1, 3, 8, 20, 40])
        shift = rng.choice([-9, -1, 1, 2, 7, P // 2, P])
        scs.append('sc %d %d %d %d %d %d %d %d %d %d %d %d' % (ws, idf, cl, ba, nn, ns, sl, sstep, sv, nt, shift, rng.choice([0, 0, 1, 2, 3])))
    # residues: total size walked across the first page boundaries in steps of one byte
    for d in range(-6, 7) if not ctx.thorough else range(-40, 41):
        scs.append('sc 0 0 1 0 0 0 0 0 %d 0 1 %d' % (max(0, P // 2 - 60 + d), d % 4))
        scs.append('sc 0 1 1 0 1 1 %d 0 %d 2 -1' % (max(0, P // 2 - 100 + d), 8))
    res = lib.run_harness_resilient(builds['san'], scs)
    traces = []
    for l, r in zip(scs, res):
        ctx.count(l, klass='builder_scenario')
        replay = {'harness': 'emit_record', 'build': 'san', 'harness_line': l, 'impl': r[:3000]}
        if r.startswith('CRASH') or r == 'BAD':
            m = re.search(r'SUMMARY: \w+: (\S+) \S+ in (\w+)', r) or re.search(r'ERROR: \w+: (\S+) .*? in (\w+) /', r)
            key = ('hang:builder-scenario' if 'HANG' in r else 'crash:builder-scenario') + (':%s:%s' % (m.group(1), m.group(2)) if m else '')
            ctx.violation(key, 'sanitizer report / crash in builder scenario `%s`: %s' % (l, r[:300]), replay); continue
        segs = [x.strip() for x in r.split(' | ')]
        recs = [x for x in segs if x[1:5] == ':rec']; defs = [x for x in segs if x[1:5] == ':def']
        for x in segs:
            if x.startswith('reset=') and x != 'reset=0,0':
                ctx.violation('builder-reset-failed', 'builder scenario `%s`: reset of the default / recording builder returned %s' % (l, x[6:]), replay)
        sums = {}
        for rec, de in zip(recs, defs):
            tag = rec.split(':', 1)[0]
            rd = dict(kv.split('=', 1) for kv in rec.split()[1:])
            dd = dict(kv.split('=', 1) for kv in de.split()[1:])
            sums[tag] = rd.get('sum')
            if tag != 'A' and rd['shape'].startswith('call0:') and ('-is-not-start' in rd['shape'] or '-is-not-end' in rd['shape']):
                ctx.violation('reset-does-not-rewind-range', 'builder scenario `%s` round %s (reused builder with a custom emitter after reset): the first emit call does not start from '
                              'origin 0: %s (builder reports start=%s end=%s size=%s)' % (l, tag, rd['shape'], rd['bstart'], rd['bend'], rd['bsize']), replay); break
            if not judge_round(ctx, l, tag, rd, dd, replay, traces): break
        else:
            if sums.get('A') is not None and sums.get('C') is not None and sums['A'] != sums['C']:
                ctx.violation('reuse-stream-differs', 'builder scenario `%s`: the reused builder (round C) emits a different stream than the first build of the same calls (round A)' % l, replay)
    ctx.sample({'builder_scenario': scs[0], 'result': res[0][:500]})

    # ---- reset rewinds the address range, for custom and default emitters and every reset variant (model: bst_reset)
    rcases = []
    for custom in (1, 0):
        for variant in (0, 1, 2, 3):
            for st, en in [(0, 0), (-4, 0), (-544, 64), (-26464, 0), (0, 4096), (INT_MIN // 2, INT_MAX // 2), (-rng.randint(1, 2 ** 30), rng.randint(0, 2 ** 30))]:
                rcases.append((custom, variant, st, en))
    rl = ['rs %d %d %d %d' % c for c in rcases]
    rres = lib.run_harness_resilient(builds['san'], rl)
    mres = ctx.run_model('emitter', ['rs %d %d' % (c[2], c[3]) for c in rcases])
    for c, l, r, m in zip(rcases, rl, rres, mres):
        ctx.count(l, klass='reset_range')
        replay = {'harness': 'emit_record', 'build': 'san', 'harness_line': l, 'impl': r, 'model': m}
        if r.startswith('CRASH') or r == 'BAD':
            ctx.violation('crash:builder-reset', 'emit_record crashed on `%s`: %s' % (l, r[:200]), replay); continue
        d = dict(kv.split('=', 1) for kv in r.split())
        if d['rc'] != '0' or d['start'] != '0' or d['end'] != '0' or d['size'] != '0':
            ctx.violation('reset-does-not-rewind-range', '%s on a builder with %s emitter and emit_start=%d emit_end=%d leaves start=%s end=%s size=%s (rc %s): the next build does not start from zero'
                          % (['flatcc_builder_reset', 'flatcc_builder_custom_reset(1,0)', 'flatcc_builder_custom_reset(0,1)', 'flatcc_builder_custom_reset(1,1)'][c[1]],
                             'a custom' if c[0] else 'the default', c[2], c[3], d['start'], d['end'], d['size'], d['rc']), replay)
        elif 'start=%s end=%s' % (d['start'], d['end']) != m:
            ctx.violation('corr:builder-reset', 'model and implementation disagree on `%s`: impl %s, model %s' % (l, r, m), replay)
    # ---- object alignments up to 32768: paddings longer than the 512-byte zero block, recording emitter that does not read them
    als = ['al %d %d' % (a, z) for a in (512, 1024, 4096, 8192, 16384, 32768) for z in (1, 7, 33)]
    for bname in ('san', 'gcc-O2'):
        res = lib.run_harness_resilient(builds[bname], als)
        for l, r in zip(als, res):
            ctx.count(bname + ' ' + l, klass='large_alignment/%s' % bname)
            replay = {'harness': 'emit_record', 'build': bname, 'harness_line': l, 'impl': r[:1500]}
            if r.startswith('CRASH'):
                m = re.search(r'SUMMARY: \w+: (\S+) \S+ in (\w+)', r) or re.search(r'ERROR: \w+: (\S+) .*? in (\w+) /', r)
                ctx.violation('emit-stream-shape', 'objects with alignment %s: %s while the iov of an emit call is assembled (more pieces than FLATCC_IOV_COUNT_MAX?) `%s`: %s'
                              % (l.split()[1], '%s in %s' % (m.group(1), m.group(2)) if m else 'crash', l, r[:200]), replay); continue
            d = dict(kv.split('=', 1) for kv in r.split())
            if d['shape'] != 'ok' or d['accepted'] != '3':
                ctx.violation('emit-stream-shape', 'objects with alignment %s (`%s`): %s, %s of 3 objects created' % (l.split()[1], l, d['shape'], d['accepted']), replay)

    # ---- page allocation failing at the k-th allocation during a build on the default emitter, then reset and reuse: the
    #      next build must hand back exactly the stream a recording emitter sees (nothing of the failed build survives)
    afs = []
    shapes = [(1, P // 2 + 500), (2, 3000), (1, 7000), (3, 40), (2, P // 2 + 1), (1, 2 * P + 100)]
    for warm in (0, 1):
        for ns, sl in shapes:
            for k in range(0, 7 if ctx.thorough else 5):
                afs.append('af %d %d %d %d %d %d %d %d %d %d %d %d %d' % (warm, k, rng.choice([0, 0, 1, 2, 3]), rng.randrange(2), rng.randrange(2), 1, 0,
                                                                        rng.choice([0, 1]), ns, sl, rng.choice([0, 10]), rng.choice([5, 100, P]), rng.choice([0, 2, 30])))
    ares = lib.run_harness_resilient(builds['san'], afs)
    nreached = 0
    for l, r in zip(afs, ares):
        ctx.count(l, klass='alloc_fail_then_reuse')
        replay = {'harness': 'emit_record', 'build': 'san', 'harness_line': l, 'impl': r[:3000]}
        if r.startswith('CRASH') or r == 'BAD':
            m = re.search(r'SUMMARY: \w+: (\S+) \S+ in (\w+)', r) or re.search(r'ERROR: \w+: (\S+) .*? in (\w+) /', r)
            ctx.violation('crash:alloc-fail-reuse' + (':%s:%s' % (m.group(1), m.group(2)) if m else ''), 'sanitizer report / crash in `%s`: %s' % (l, r[:300]), replay); continue
        segs = [x.strip() for x in r.split(' | ')]
        fd = dict(kv.split('=', 1) for kv in [x for x in segs if x.startswith('fail ')][0].split()[1:])
        if fd['reached'] == '1':
            nreached += 1
            if fd['rc'] == '0':
                ctx.violation('alloc-failure-not-reported', 'scenario `%s`: a page allocation failed during the build but every builder call reported success' % l, replay); continue
        if fd['reset'] != '0':
            ctx.violation('builder-reset-failed', 'scenario `%s`: reset after the failed build returned %s' % (l, fd['reset']), replay); continue
        rec = [x for x in segs if x[1:5] == ':rec'][0]; de = [x for x in segs if x[1:5] == ':def'][0]
        rd = dict(kv.split('=', 1) for kv in rec.split()[1:]); dd = dict(kv.split('=', 1) for kv in de.split()[1:])
        before = len(ctx.violations)
        ok2 = judge_round(ctx, l, 'after-failed-build', rd, dd, replay, [])
        if segs[-1] != 'live=0':
            ctx.violation('clear-leaks-pages', 'scenario `%s`: pages still allocated after flatcc_builder_clear: %s' % (l, segs[-1]), replay)
    ctx.log('alloc-fail-then-reuse: %d scenarios, allocation failure reached in %d' % (len(afs), nreached))
    if inventory_problem:
        shape_keys = ('emit-stream-shape', 'emit-pieces', 'emit-empty-call', 'emit-front-', 'emit-back-', 'reset-does-not-rewind-range', 'buffer-size', 'buffer-range')
        if not any(v['key'].startswith(shape_keys) for v in ctx.violations):
            ctx.broken_obligation('site-inventory', {'what': inventory_problem, 'scanned': sites, 'model': minv, 'searched': '%d builder scenarios, %d direct emit_front/emit_back cases: every emit call well formed' % (len(scs), len(cases))})
    return traces


def run(ctx):
    consts = lib.gen_consts(ctx)
    P = consts['EMITTER_PAGE_SIZE']
    okc, clog = U.ensure_coq(ctx)
    if not okc:
        ctx.obligations += len(ctx.theorem_names('Properties_C12.v'))
        ctx.broken_obligation('Properties_C12.vo (direct coqc)', clog)
    elif not ctx.check_theorems():
        ctx.broken_obligation('Properties_C12.vo', getattr(ctx, 'broken', {}))
    if okc and os.path.exists(os.path.join(lib.COQ, 'Properties', 'Properties_C12c.v')):
        # T5: builder.c pad/alignup leaves and the emit_front/emit_back range guards regenerated from the clang AST
        from . import c01c_util
        ok, msg = c01c_util.regen_builder_leaves(ctx)
        ctx.log('T5 builder leaves: %s' % (msg if not ok else 'regenerated, Properties_C12c re-checked'))
        if not ok:
            w = c01c_util.LAST.get('witnesses') or []
            if w: ctx.violation('leaf:' + w[0]['leaf'], msg, w[0])
            else: ctx.broken_obligation('Properties_C12c.vo', dict(c01c_util.LAST, message=msg))
    if P < 2 or P % 2:
        ctx.violation('page-size-odd', 'FLATCC_EMITTER_PAGE_SIZE = %d is not a positive even number (first page is split in halves)' % P, {'page_size': P})

    if ctx.replay_in:
        rep = json.load(open(ctx.replay_in))
        ctx.log('replay: run the full check; the recorded case was %s on %s' % (rep.get('harness_line', '')[:200], rep.get('harness')))

    traces = run_part_b(ctx, consts)
    ctx.log('part B done')
    n = run_part_a(ctx, P, True, traces)
    ctx.log('part A default page size %d: %d sessions' % (P, n))
    for sp in ([16, 64] if not ctx.thorough else [2, 6, 16, 64, 130]):
        n = run_part_a(ctx, sp, False, [])
        ctx.log('part A page size %d: %d sessions' % (sp, n))

    ctx.trusted = lib.DEFAULT_TRUSTED + ['translators/cleaf_to_coq.py (T5: clang 14 -ast-dump=json of builder.c pad/alignup helpers and emit guards -> coq/Generated/Leaf_builder.v; output must be proved equal to the model)', 'translators/consts_probe.c (T1: FLATCC_EMITTER_PAGE_SIZE, FLATCC_IOV_COUNT_MAX from /repo headers)',
                                          'checks/c12_util.ast_sites (clang 14 -ast-dump=json of builder.c: piece pushes and emit_front/emit_back calls per iov block)']
    ctx.assumptions = ['signed 32-bit reference arithmetic modelled as two\'s complement wrap (C leaves the overflow undefined; optimised gcc and clang builds are both tested)',
                       'size_t sums of at most four pieces of object sizes below 2^62 do not wrap',
                       'the never-used emitter returns null from copy_buffer for the empty stream (accepted as "nothing to return")',
                       'pages handed to flatcc_emitter_recycle_page while still in use are outside the property (documented data loss)']
    ctx.finish_args = dict(
        rule='part A: sessions of front/back emits (1..8 pieces, sizes aimed at page-size/2, page-size, k*page-size +-3, 0..4 pages), resets, spare-page recycling, '
             'allocation failures, zero-length pieces, emit shapes recorded from builder scenarios; default page size plus page sizes 16 and 64 where every residue of the '
             'front/back split around one and two page boundaries is swept. part B: emit_front/emit_back at 32-bit boundary values (gcc -O2 and clang -O2), multi-GiB '
             'histories through a recording emitter, builder scenarios (strings, vectors, nested buffers, clustered and unclustered vtables, identifiers, size prefix, '
             'block alignment) with reset and reuse. distinct = distinct request lines; every line reaches the code under test',
        explanation='theorems of Properties_C12 re-checked against regenerated constants; extracted model compared with the implementation field by field; every observation '
                    'also judged against the property statement with a python byte deque (bytes, size, returned pointer) and the stream-shape invariants')
