"""C06 - Schema compiler fails gracefully on any input.   (level `other`: monitored, not proved)

1. Theorems (Properties_C06.v): only the return-code / diagnostics protocol, over abstract sub-phases (thin).
2. The weight: harness/compile_fuzz.c drives the LIBRARY interface (flatcc_create_context / flatcc_parse_buffer /
   flatcc_parse_file with include chains / flatcc_generate_files / flatcc_destroy_context) of /repo's current sources
   under ASan + UBSan + LSan with a per-case alarm, thousands of create/parse/generate/destroy cycles per process.
   Inputs: valid schema ASTs (gen/schema_gen.py), ASTs invalid by exactly one semantic rule, token-level mutations,
   truncation at every byte, random bytes, include chains / cycles / repeats / limits, option subsets.
   Verdict rules = the property statement:
     no crash / sanitizer report / leak / hang;
     parse returns 0  => no diagnostic was delivered;   non-zero => at least one diagnostic;
     after a failed parse, flatcc_generate_files must fail and write nothing (files or stdout);
     valid ASTs are accepted, one-rule-invalid ASTs are rejected;
     the flatcc executable exits non-zero exactly on the rejected inputs of a sample and then writes no output.
"""
import os, re, random, shutil
from . import lib
from . import layout_util as U
from .layout_util import G

GEN_SETS = ['cgen_reader=1', 'cgen_reader=1,cgen_builder=1,cgen_verifier=1,cgen_common_reader=1,cgen_common_builder=1',
            'cgen_reader=1,cgen_builder=1,cgen_verifier=1,cgen_json_parser=1,cgen_json_printer=1,cgen_common_reader=1,cgen_common_builder=1,cgen_recursive=1',
            'cgen_common_reader=1', 'cgen_common_reader=1,cgen_common_builder=1', 'bgen_bfbs=1', 'bgen_bfbs=1,bgen_length_prefix=1',
            'bgen_bfbs=1,bgen_qualify_names=0', 'cgen_reader=1,gen_stdout=1', 'cgen_reader=1,cgen_common_reader=1,gen_stdout=1,cgen_builder=1,cgen_common_builder=1',
            'bgen_bfbs=1,gen_stdout=1', 'cgen_json_parser=1', 'cgen_json_printer=1', 'cgen_verifier=1', 'cgen_reader=1,cgen_no_conflicts=1',
            'cgen_reader=1,gen_dep=1', 'cgen_reader=1,cgen_builder=1,ns=pfx_', 'cgen_reader=1,cgen_common_reader=1,nsc=cmn', 'cgen_reader=1,gen_outfile=outfile.h',
            'cgen_reader=1,cgen_pad=1,cgen_sort=0,cgen_pragmas=0,cgen_spacing=0', '-']
PARSE_TOGGLES = ['ascending_enum=1', 'strict_enum_init=0', 'hide_later_enum=1', 'hide_later_struct=1', 'require_root_type=1', 'allow_struct_root=0',
                 'allow_enum_key=0', 'allow_string_key=0', 'allow_struct_field_key=0', 'allow_struct_field_deprecate=0', 'allow_primary_key=0',
                 'allow_multiple_key_fields=0', 'allow_enum_struct_field=0', 'allow_boolean_conversion=0', 'vt_max_count=3', 'vt_max_count=65534',
                 'max_schema_size=100', 'max_schema_size=0']


def hx(b): return bytes(b).hex() if len(b) else '-'


UB_NOTES = {}
OOM_EXITS = []


def note_ub(err):
    for m in re.finditer(r'(\w+\.[ch]):(\d+):\d+: runtime error: ([^\n]{0,80})', err):
        if re.search(r'signed integer overflow|negation of|shift|outside the range of representable|division by zero', m.group(3)):
            k = '%s:%s %s' % (m.group(1), m.group(2), re.sub(r'-?\d{3,}', 'N', m.group(3)))
            UB_NOTES[k] = UB_NOTES.get(k, 0) + 1


def run_lines(h, lines, timeout=1500):
    """like lib.run_harness_resilient, but the harness exits on purpose after a reply with the leak flag set"""
    replies, start, guard = [], 0, 0
    while start < len(lines):
        rc, res, err = h.run(lines[start:], timeout=timeout)
        note_ub(err)
        res = res[:len(lines) - start]
        replies.extend(res)
        done = start + len(res)
        if done >= len(lines): break
        if res and res[-1].startswith('R ') and res[-1].split(' ', 7)[6] == '1':
            # exited after reporting a leak: attach the allocation site from the LSan report
            fr = re.findall(r'#\d+ 0x[0-9a-f]+ in (\w+) ', err[err.rfind('detected memory leaks'):] if 'detected memory leaks' in err else '')
            fr = [x for x in fr if not x.startswith('__interceptor') and x not in ('malloc', 'calloc', 'realloc')]
            replies[-1] += ' LEAKSITE=' + (fr[0] if fr else '?')
            start = done; continue
        if res and res[-1].startswith('HANG'):
            start = done; continue          # the HANG line is the reply of the hanging case
        cut = max(err.rfind('ERROR: AddressSanitizer'), err.rfind('Assertion `'), err.rfind('runtime error:'))
        if cut < 0: cut = max(err.rfind('failed to allocate'), err.rfind('error: out of memory, aborting'))
        if cut >= 0:
            cut = err.rfind('\n', 0, cut) + 1
            tail = err[cut:].strip().split('\n')[:16]
        else:
            tail = err.strip().split('\n')[-8:]       # stderr accumulates over the whole history: the end is what belongs to this case
        replies.append('CRASH ' + ' '.join(tail)[:1800])
        start = done + 1
        guard += 1
        if guard > 300:
            replies.extend(['CRASH (too many crashes)'] * (len(lines) - len(replies))); break
    return replies[:len(lines)]


def replay_of(c, r):
    d = {'klass': c['klass'], 'options': c['opts'], 'generate_mode': c['gen'], 'harness_reply': r}
    if c['kind'] == 'buf': d['schema_hex'] = hx(c['data']); d['schema_text'] = c['data'].decode('utf-8', 'replace')[:4000]; d['name'] = c.get('name', 'schema')
    else: d['files'] = {k: (v if isinstance(v, str) else v.decode('utf-8', 'replace')) for k, v in c['files'].items()}; d['root'] = os.path.basename(c['path'])
    return d


def judge(ctx, c, r):
    """the clauses of the property statement on one harness reply; returns +1 accepted, -1 rejected, 0 not evaluated"""
    kl = c['klass']
    ctx.count(repr((c['opts'], c['gen'], c.get('data'), c.get('path'))), klass=kl.split(':')[0])
    base = kl.split(':')[0]
    if r.startswith('HANG'):
        # termination clause: the per-case alarm fired, or diagnostics were delivered without bound (runaway error loop)
        budget = base in ('error_budget', 'many_error_truncation', 'truncation', 'token_mutation', 'random_bytes', 'include_mutated') or base.startswith('stress')
        key = 'hang:error-cap' if ('flood' in r or budget) else 'hang:%s' % base
        ctx.violation(key, 'schema compiler does not terminate on %s input (%s): %s' % (
            kl, 'unbounded stream of diagnostics: the error cap does not end the parse' if 'flood' in r else 'per-case alarm expired', r), replay_of(c, r))
        return 0
    if r.startswith('CRASH') and 'out of memory, aborting' in r and 'ERROR: AddressSanitizer' not in r and 'runtime error' not in r:
        # the allocator returned NULL for an absurd request and checkmem() ended the process with exit(1): no invalid access, no crash
        OOM_EXITS.append((kl, c['opts'].split(',inpath')[0]))
        return 0
    if r.startswith('CRASH') or not r.startswith('R '):
        what = 'crash / sanitizer report'
        m = re.search(r'(AddressSanitizer: [\w-]+|runtime error: [^_]{0,60}|LeakSanitizer[^ ]*)', r)
        site = re.search(r'#\d+ 0x[0-9a-f]+ in (\w+) ', r)
        am = re.search(r'(\w+\.[ch]):(\d+): [^:]*: Assertion', r)
        if am: key = 'assert:%s:%s' % (am.group(1), am.group(2)); what = 'assertion failure (abort in builds without NDEBUG)'
        else: key = 'crash:%s:%s' % (re.sub(r'\s+', '_', re.sub(r"0x[0-9a-f]+.*|'.*", '', m.group(1)).strip()) if m else 'abort', site.group(1) if site else '?')
        ctx.violation(key, 'schema compiler %s on %s input: %s' % (what, kl, r[:300]), replay_of(c, r))
        return 0
    f = r.split(' ', 7)
    prc, nd, grc, nfiles, sout, leak = f[1], int(f[2]), f[3], int(f[4]), int(f[5]), int(f[6])
    if prc == 'noctx':
        # flatcc_create_context refused the options: it must say why and release everything it allocated
        if leak:
            site = re.search(r'LEAKSITE=(\S+)', r)
            ctx.violation('leak:create-context:%s' % (site.group(1) if site else '?'), 'flatcc_create_context returned null for options %s but left memory allocated (allocated in %s)' % (
                c['opts'].split(',inpath')[0], site.group(1) if site else '?'), replay_of(c, r))
        if nd == 0:
            ctx.violation('create-failure-without-diagnostic', 'flatcc_create_context returned null for options %s without reporting a diagnostic' % c['opts'].split(',inpath')[0], replay_of(c, r))
        return 0
    prc = int(prc)
    if leak:
        site = re.search(r'LEAKSITE=(\S+)', r)
        ctx.violation('leak:%s' % (site.group(1) if site else base), 'memory still allocated after flatcc_destroy_context (%s input, parse rc %d, options %s), allocated in %s' % (
            kl, prc, c['opts'].split(',inpath')[0], site.group(1) if site else '?'), replay_of(c, r))
    if prc == 0 and nd > 0:
        ctx.violation('success-with-diagnostic:%s' % base, 'parse returned 0 although %d diagnostic(s) were reported: %s' % (nd, f[7][:120]), replay_of(c, r))
    if prc != 0 and nd == 0:
        ctx.violation('failure-without-diagnostic:%s' % base, 'parse returned %d without reporting any diagnostic' % prc, replay_of(c, r))
    if prc != 0 and grc != 'n':
        if int(grc) == 0 or nfiles > 0 or sout > 0:
            what = 'schema output' if 'bgen_bfbs=1' in c['opts'] else 'common files' if 'common' in c['opts'] else 'output'
            cause = 'size-limit' if 'exceeds' in f[7] else 'include' if ('include' in f[7] or c['kind'] == 'file') else 'other'
            ctx.violation('generate-after-failed-parse:%s' % cause,
                          'after a failed parse (rc %d, "%s") flatcc_generate_files returned %s and wrote %d file(s), %d stdout bytes (%s)' % (
                              prc, f[7][:80], grc, nfiles, sout, what), replay_of(c, r))
    if c['expect'] == 'accept' and prc != 0:
        ctx.violation('valid-rejected:%s' % base, 'a valid schema (%s) was rejected: %s' % (kl, f[7][:160]), replay_of(c, r))
    if c['expect'] == 'reject' and prc == 0:
        ctx.violation('invalid-accepted:%s' % kl, 'a schema violating rule `%s` was accepted' % kl, replay_of(c, r))
    if c['expect'] == 'accept' and prc == 0 and grc != 'n' and int(grc) != 0:
        ctx.violation('generate-failed:%s' % base, 'generation failed (rc %s) for an accepted schema with options %s' % (grc, c['opts']), replay_of(c, r))
    if c['expect'] == 'accept' and prc == 0 and grc != 'n' and int(grc) == 0 and c['opts'] != '-' and not c.get('nogen') and nfiles == 0 and sout == 0 \
            and 'gen_outfile' not in c['opts']:
        ctx.violation('no-output:%s' % base, 'generation reported success but wrote nothing (options %s)' % c['opts'], replay_of(c, r))

    return 1 if prc == 0 else -1


def run(ctx):
    rng = ctx.rng
    cons = U.config_consts(ctx)
    ok = U.check_theorems(ctx, 'Properties_C06', ['Layout/Protocol.v'])
    if not ok: ctx.broken_obligation('Properties_C06.vo', getattr(ctx, 'broken', {}))

    # ASan + UBSan as in lib.SAN, except that purely arithmetic UB (signed overflow, shifts, float casts) is reported and
    # execution continues: the property constrains crashes and invalid memory accesses; arithmetic UB is recorded as a note
    # (it belongs to C08) and the case is still judged. Memory related UBSan checks (null, alignment, bounds, object-size,
    # pointer-overflow) stay fatal.
    mysan = U.MYSAN
    objs = ctx.objs(lib.COMPILER_SRCS, 'libflatcc_mysan', san=False, compiler='clang', defs=['-DFLATCC_REFLECTION=1'] + mysan, incs=lib.COMPILER_INCS)
    exe = ctx.cc([os.path.join(lib.ROOT, 'harness', 'compile_fuzz.c')] + objs, os.path.join(ctx.bdir, 'compile_fuzz'), san=True,
                 incs=['-I' + os.path.join(lib.ROOT, 'harness')])
    flatcc = ctx.flatcc()
    T = ctx.thorough
    if ctx.replay_in:
        import json
        rp = json.load(open(ctx.replay_in))
        d = os.path.join(ctx.bdir, 'replay'); od = os.path.join(d, 'out'); os.makedirs(od, exist_ok=True)
        if rp.get('klass') == 'cli_multi_file':
            for n, t in rp['files'].items(): open(os.path.join(d, n), 'w').write(t)
            words = rp['command'].split()[1:]
            cmd = [flatcc] + [(os.path.join(d, w) if w.endswith('.fbs') else od if w == 'out' else w) for w in words]
            rc, so, se = U.run(cmd + ['-I', d], timeout=60)
            files = sorted(os.listdir(od)); diag = 'error' in se
            ctx.count('replay', klass='replay'); ctx.log('rc=%s files=%r stderr=%s' % (rc, files, se[:300]))
            if (diag and rc == 0) or (not diag and rc != 0) or [f for f in files if f.startswith('badfile')]:
                ctx.violation(rp['key'], 'still fails: exit status %s, diagnostic printed: %s, output files %r' % (rc, diag, files), rp)
            ctx.finish_args = dict(rule='replay of one recorded command line', explanation='replay')
            return
        opts = ','.join(o for o in rp['options'].split(',') if not o.startswith('inpath=')) or '-'
        if 'schema_hex' in rp:
            c = {'klass': rp['klass'], 'kind': 'buf', 'opts': opts, 'gen': rp['generate_mode'], 'name': rp.get('name', 'schema'),
                 'data': bytes.fromhex(rp['schema_hex']) if rp['schema_hex'] != '-' else b'', 'expect': None}
            line = 'buf %s %d %s %s %s' % (opts, c['gen'], od, c['name'], hx(c['data']))
        else:
            for n, t in rp['files'].items():
                p = os.path.join(d, n); os.makedirs(os.path.dirname(p), exist_ok=True); open(p, 'wb').write(t.encode('utf-8', 'surrogateescape'))
            o2 = (opts + ',' if opts != '-' else '') + 'inpath=' + d
            c = {'klass': rp['klass'], 'kind': 'file', 'opts': o2, 'gen': rp['generate_mode'], 'path': os.path.join(d, rp['root']), 'files': rp['files'], 'expect': None}
            line = 'file %s %d %s %s' % (o2, c['gen'], od, c['path'])
        if rp['klass'].startswith('invalid_rule'): c['expect'] = 'reject'
        if rp['klass'].startswith(('valid_ast', 'options_valid')): c['expect'] = 'accept'
        h = lib.Harness(exe, env={'ASAN_OPTIONS': 'detect_leaks=1:abort_on_error=0:allocator_may_return_null=1', 'UBSAN_OPTIONS': 'print_stacktrace=1'})
        r = run_lines(h, [line])[0]
        ctx.log('harness reply:', r[:600])
        judge(ctx, c, r)
        ctx.finish_args = dict(rule='replay of one recorded input', explanation='replay')
        return

    cases = []    # dict(klass, line parts, expect: 'accept'|'reject'|None, replay)
    incroot = os.path.join(ctx.bdir, 'inc'); os.makedirs(incroot, exist_ok=True)
    ninc = [0]

    def add_buf(klass, text, expect=None, opts=None, gen=None, name='schema'):
        data = text if isinstance(text, bytes) else text.encode('utf-8', 'surrogateescape')
        o = opts if opts is not None else rng.choice(GEN_SETS)
        if rng.random() < 0.15 and opts is None and expect is None:
            o = (o + ',' if o != '-' else '') + rng.choice(PARSE_TOGGLES)
        g = gen if gen is not None else rng.choice([1, 2, 2])
        cases.append({'klass': klass, 'kind': 'buf', 'opts': o, 'gen': g, 'name': name, 'data': data, 'expect': expect})

    def add_file(klass, files, rootname, expect=None, opts=None, gen=None):
        ninc[0] += 1
        d = os.path.join(incroot, 'c%d' % ninc[0]); os.makedirs(d, exist_ok=True)
        for n, t in files.items():
            p = os.path.join(d, n); os.makedirs(os.path.dirname(p), exist_ok=True)
            open(p, 'wb').write(t if isinstance(t, bytes) else t.encode('utf-8', 'surrogateescape'))
        o = opts if opts is not None else rng.choice(GEN_SETS)
        nogen = (o == '-')
        o = (o + ',' if o != '-' else '') + 'inpath=' + d
        g = gen if gen is not None else rng.choice([1, 2, 2])
        cases.append({'klass': klass, 'kind': 'file', 'opts': o, 'gen': g, 'nogen': nogen, 'path': os.path.join(d, rootname), 'files': files, 'expect': expect})

    # ---- 1/2: valid ASTs and ASTs invalid by one rule
    nvalid = 150 if T else 40
    valid_texts = []
    for i in range(nvalid):
        s = G.gen_schema(random.Random(rng.getrandbits(64)), rng.choice(['small', 'small', 'medium']), nfiles=1 if i % 2 == 0 else None)
        files = s.render(); rootn = s.files[0].name + '.fbs'
        if len(files) == 1:
            add_buf('valid_ast', files[rootn], 'accept', name=s.files[0].name)
            valid_texts.append(files[rootn])
        add_file('valid_ast_file', files, rootn, 'accept')
        for _ in range(3 if T else 2):
            m = G.mutate_invalid(rng, s)
            if not m: continue
            s2, rule = m
            f2 = s2.render(); r2 = s2.files[0].name + '.fbs'
            if len(f2) == 1 and rule != 'missing_include': add_buf('invalid_rule:' + rule, f2[r2], 'reject', name=s2.files[0].name)
            else: add_file('invalid_rule:' + rule, f2, r2, 'reject')
    # every option set on one valid and one invalid schema
    vt = valid_texts[0]
    for o in GEN_SETS:
        add_buf('options_valid', vt, 'accept', opts=o, gen=2)
        add_buf('options_invalid', vt.replace('{', '{ zz9:NoSuch77;', 1), 'reject', opts=o, gen=2)
    for o in PARSE_TOGGLES:
        add_buf('parse_options', rng.choice(valid_texts), None, opts='cgen_reader=1,' + o, gen=2)
    # ---- 3: token level mutations
    for _ in range(6000 if T else 1500):
        add_buf('token_mutation', G.mutate_text(rng, rng.choice(valid_texts[:20])))
    # ---- 4: truncation at every byte
    for t in sorted(valid_texts, key=len)[:(6 if T else 2)]:
        b = t.encode()
        for k in range(len(b) + 1):
            add_buf('truncation', b[:k], opts=rng.choice(GEN_SETS[:3]), gen=2)
    # ---- 4b: error budget: k = 0..14 diagnostics from one- and two-diagnostic items in each kind of body, then end of input inside a body
    #      (termination there rests on the FLATCC_MAX_ERRORS cap alone), and truncation of many-error inputs at every byte
    for label, text in G.error_budget_inputs(rng, full=T):
        add_buf('error_budget:' + label, text, opts=rng.choice(['cgen_reader=1', 'bgen_bfbs=1', '-']), gen=2)
    for k, text in enumerate(G.many_error_texts(rng, 6 if T else 3)):
        b = text.encode()
        for cut in range(len(b) + 1):
            add_buf('many_error_truncation', b[:cut], opts='cgen_reader=1', gen=2)
        add_file('many_error_truncation', {'a.fbs': 'include "b.fbs";\ntable A { x:int; }\n', 'b.fbs': text[:len(text) * 2 // 3]}, 'a.fbs', 'reject', opts='cgen_reader=1', gen=2)
    # ---- 4c: explicit ids on the vtable boundary (field_marker / field_index are heap arrays of vt_max_count entries), default and small limits
    for vt in (None, 3, 8, 100, 65534):
        N = cons['vt_max'] if vt is None else vt
        for idv in sorted({0, 1, N - 2, N - 1, N, N + 1, N + 2, 65533, 65534, 65535, 65536, 2 ** 32 - 1, 2 ** 32, 2 ** 63, 2 ** 64 - 1}):
            if idv < 0: continue
            o = 'cgen_reader=1' + ('' if vt is None else ',vt_max_count=%d' % vt)
            add_buf('id_boundary', 'table T { a:int (id: %d); }\n' % idv, opts=o, gen=2)
            add_buf('id_boundary', 'table X { a:int; }\nunion U { X }\ntable T { u:U (id: %d); }\n' % idv, opts=o, gen=2)
            add_buf('id_boundary', 'table X { a:int; }\nunion U { X }\ntable T { v:[U] (id: %d); b:int (id: 0); }\n' % idv, opts=o, gen=2)
            if idv <= 70000:
                add_buf('id_boundary', 'table T { %s z:int (id: %d); }\n' % (' '.join('f%d:int (id: %d);' % (k, k) for k in range(min(idv, 5))), idv), opts=o, gen=2)
        for nf in (N - 1, N, N + 1):
            if nf <= 200:
                add_buf('id_boundary', 'table T { %s }\n' % ' '.join('f%d:int;' % k for k in range(nf)), opts='cgen_reader=1,vt_max_count=%d' % N, gen=2)
                add_buf('id_boundary', 'table X { a:int; }\nunion U { X }\ntable T { %s u:U; }\n' % ' '.join('f%d:int;' % k for k in range(max(0, nf - 2))), opts='cgen_reader=1,vt_max_count=%d' % N, gen=2)
    # ---- 4d: every numeric field of flatcc_options_t with invalid / extreme values: refused option sets (create returns null) must
    #      report a diagnostic and release everything; accepted ones go through the full cycle
    NUM_OPTS = ['max_schema_size', 'max_include_depth', 'max_include_count', 'disable_includes', 'allow_boolean_conversion', 'allow_enum_key',
                'allow_enum_struct_field', 'allow_multiple_key_fields', 'allow_primary_key', 'allow_scan_for_all_fields', 'allow_string_key',
                'allow_struct_field_deprecate', 'allow_struct_field_key', 'allow_struct_root', 'ascending_enum', 'hide_later_enum', 'hide_later_struct',
                'offset_size', 'voffset_size', 'utype_size', 'bool_size', 'require_root_type', 'strict_enum_init', 'vt_max_count', 'gen_stdout', 'gen_dep',
                'gen_append', 'cgen_pad', 'cgen_sort', 'cgen_pragmas', 'cgen_common_reader', 'cgen_common_builder', 'cgen_reader', 'cgen_builder',
                'cgen_verifier', 'cgen_json_parser', 'cgen_json_printer', 'cgen_recursive', 'cgen_spacing', 'cgen_no_conflicts', 'cgen', 'bgen_bfbs',
                'bgen_qualify_names', 'bgen_length_prefix']
    ov_valid = valid_texts[1 % len(valid_texts)]
    for name in NUM_OPTS:
        vals = [-1, 0, 1, 2, 3, 4, 5, 7, 8, 16, 255, 65536, 2147483647, -2147483648]
        if name in ('offset_size', 'voffset_size'): vals += [6, 9, 12, 32, 64]
        if name == 'vt_max_count': vals = [0, 1, 2, 3, 4, 5, 7, 8, 16, 255, 65534, 65535, 65536]     # a table size: larger values only ask for that much memory
        for v in (vals if (T or name in ('offset_size', 'voffset_size', 'utype_size', 'bool_size', 'vt_max_count')) else rng.sample(vals, 5)):
            base = 'cgen_reader=1,' if not name.startswith(('cgen', 'bgen', 'gen_')) else ''
            add_buf('option_fuzz', ov_valid, opts='%s%s=%d' % (base, name, v), gen=2)
            if rng.random() < 0.3: add_buf('option_fuzz', 'table T { a:int }', opts='%s%s=%d' % (base, name, v), gen=2)
    for _ in range(200 if T else 40):
        picks = rng.sample(NUM_OPTS, rng.randint(2, 5))
        # vt_max_count is a table size (heap arrays of that many entries): keep it to real table sizes, see option_fuzz
        add_buf('option_fuzz_combo', rng.choice(valid_texts),
                opts=','.join('%s=%d' % (n, rng.choice([0, 1, 2, 3, 4, 8, 9, 65535] if n == 'vt_max_count' else [-1, 0, 1, 2, 3, 4, 8, 9, 65535])) for n in picks), gen=2)
    # one deliberate absurd table size: the allocator refuses (allocator_may_return_null=1), flatcc's checkmem() prints
    # "out of memory, aborting" and calls exit(1) - its allocation-failure policy, recorded as a note, not judged (see assumptions)
    add_buf('oom_policy', valid_texts[0], opts='cgen_reader=1,vt_max_count=-1', gen=2)
    # ---- 4e: identifiers whose length is len(keyword) + 256 and that start / end like the keyword (one byte length tag in the lexer):
    #      they are identifiers, so these schemas name unknown types / are otherwise valid
    for kw in ('int', 'long', 'ubyte', 'string', 'bool', 'double'):
        ident = kw + 'y' * 255 + kw[-1]
        add_buf('invalid_rule:long_ident_keyword', 'table T { a:%s; }\n' % ident, 'reject', opts='cgen_reader=1', gen=2)
        add_buf('invalid_rule:long_ident_keyword', 'table T { a:[%s]; }\n' % ident, 'reject', opts='bgen_bfbs=1', gen=2)
    for kw in ('table', 'struct', 'enum', 'union', 'namespace', 'include', 'attribute', 'root_type', 'rpc_service', 'true', 'null'):
        ident = kw + 'y' * 255 + kw[-1]
        add_buf('long_ident_keyword_name', 'table %s { %s:int; }\n' % (ident.capitalize(), ident), None, opts='-', gen=2)
        add_buf('long_ident_keyword_name', 'table T { %s:int; }\n' % ident, 'accept', opts='-', gen=2)
    # ---- 4g: string valued attributes / declarations with empty, one character, dot-only, leading / trailing dot values
    svals = ['', '.', '..', '...', 'T', '.T', 'T.', 'N.T', 'N..T', '.N.T', 'N.T.', ' ', 'a b', '\\', 'T' * 300, '.' * 300, 'N.' * 60 + 'T', 'é']
    for k, v in enumerate(svals):
        texts = ['table T { nest:[ubyte] (nested_flatbuffer: "%s"); }\n' % v,
                 'namespace N;\ntable T { a:int; }\ntable U { nest:[ubyte] (nested_flatbuffer: "%s"); x:[ubyte] (nested_flatbuffer: "%s", base64); }\n' % (v, v),
                 'table T { a:int (key: "%s", id: "%s", deprecated: "%s"); b:string (required: "%s", hash: "%s"); }\n' % (v, v, v, v, v),
                 'struct S (force_align: "%s") { a:int (key: "%s"); }\nenum E:int (bit_flags: "%s") { A }\n' % (v, v, v),
                 'attribute "%s";\ntable T { a:int (%s); }\n' % (v, v if v.isalnum() else 'x'),
                 'table T { a:int; }\nroot_type T;\nfile_identifier "%s";\nfile_extension "%s";\n' % (v, v)]
        for t in texts:
            add_buf('attr_strings', t, opts=rng.choice([GEN_SETS[2], 'bgen_bfbs=1', 'cgen_reader=1']), gen=2)
        add_file('attr_strings_file', {'a.fbs': 'include "%s";\ntable A { x:int; }\n' % v}, 'a.fbs', None, gen=2)
        add_file('attr_strings_file', {'a.fbs': 'include "b.fbs";\ntable A { x:int; }\n', 'b.fbs': texts[0]}, 'a.fbs', None, gen=2)
    # ---- 4f: empty doc comments, null options
    for t in ('/**/table T { a:int; }\n/* x */', '/**/', '/**/ struct S { /**/ a:int; /**/ }\n', 'table T { a:int; } /**/\n/**/', '/*/ table T { a:int; } */', '/**', '/***/table T { a:int; }'):
        for o in (GEN_SETS[2], 'bgen_bfbs=1'):
            add_buf('stress:empty_doc_comment', t, opts=o, gen=2)
    for t in (valid_texts[0], 'table T { a:int }', ''):
        add_buf('null_options', t, opts='NULLOPTS', gen=2)
    # ---- 5: random bytes / token soup
    for _ in range(4000 if T else 1000):
        k = rng.random()
        n = rng.choice([0, 1, 2, 3, 8, 31, 64, rng.randint(0, 300)])
        if k < 0.3: b = bytes(rng.getrandbits(8) for _ in range(n))
        elif k < 0.5: b = bytes(rng.choice(b' \t\n{}()[]:;,=."/*-+0123456789abcxyzTSE_') for _ in range(n))
        else: b = ' '.join(rng.choice(G.SOUP) for _ in range(rng.randint(0, 60))).encode('utf-8', 'surrogateescape')
        add_buf('random_bytes', b)
    # ---- stress shapes aimed at limits
    stress = {
        'many_errors': ''.join('table T%d { a:Missing%d; }\n' % (i, i) for i in range(40)),
        'deep_struct_chain': ''.join('struct S%d { a:%s; }\n' % (i, 'int' if i == 0 else 'S%d' % (i - 1)) for i in range(cons['nesting_max'] + 20)),
        'deep_struct_chain_rev': ''.join('struct S%d { a:%s; }\n' % (i, 'int' if i == 130 else 'S%d' % (i + 1)) for i in range(131)),
        'long_namespace': 'namespace ' + '.'.join('N' * 30 for _ in range(8)) + ';\ntable T { a:int; }\n',
        'long_ident': 'table %s { %s:int; }\n' % ('T' * 300, 'f' * 300),
        'many_fields': 'table T { %s }\n' % ' '.join('f%d:int;' % i for i in range(3000)),
        'many_attrs': 'table T { a:int (%s); }\n' % ', '.join(['deprecated'] * 150),
        'many_user_attrs': ''.join('attribute "a%d";\n' % i for i in range(300)) + 'table T { a:int (%s); }\n' % ', '.join('a%d' % i for i in range(300)),
        'brackets': 'table T { a:' + '[' * 500 + 'int' + ']' * 500 + '; }\n',
        'big_enum': 'enum E:ubyte { %s }\n' % ', '.join('V%d' % i for i in range(300)),
        'huge_number': 'table T { a:int = %s; }\n' % ('9' * 5000),
        'huge_float': 'table T { a:double = 1%s.5e%s; }\n' % ('0' * 400, '9' * 30),
        'unterminated_string': 'file_identifier "ABC',
        'unterminated_comment': 'table T { a:int; } /* never closed',
        'nul_inside': 'table T { a:int; }\0table U { b:int; }',
        'ctrl_in_comment': '// a \x01 b\ntable T { a:int; }\n',
        'include_in_buffer': 'include "x.fbs";\ntable T { a:int; }\n',
        'union_of_self': 'union U { U }\n', 'enum_of_enum': 'enum E:E { A }\n', 'root_twice': 'table T { a:int; }\nroot_type T;\nroot_type T;\n',
        'struct_65535': 'struct S { a:[ubyte:65535]; }\n', 'struct_array_overflow': 'struct S { a:[long:4294967295]; b:[long:4294967295]; }\n',
        'array_len_overflow': 'struct S { a:[int:4294967296]; }\n', 'array_len_neg': 'struct S { a:[int:-1]; }\n',
        'id_big': 'table T { a:int (id: 65535); }\n', 'id_huge': 'table T { a:int (id: 18446744073709551615); }\n',
        'force_align_huge': 'struct S (force_align: 18446744073709551615) { a:int; }\n',
        'id_dup_holes': 'table T { a:int (id:0); b:int (id:3); c:int (id:3); d:int (id:3); }\n',
        'id_dup_union_holes': 'table X { a:int; }\nunion U { X }\ntable T { a:U (id:1); b:U (id:5); c:int (id:5); d:int (id:5); e:int (id:5); }\n',
        'exp_at_end': 'table T { a:float = 50E', 'hexexp_at_end': 'table T { a:float = 0x1p', 'exp_only': '50E', 'root_type_at_end': 'table T { a:int; }\nroot_type',
        'enum_no_type_in_struct': 'enum E { A, B }\nstruct S { e:E; x:int; }\n', 'dup_field': 'table T { a:int; a:int; b:string; }\n',
        'id_skipped_fields': 'table T { a:int (id:0); b:string = 1 (id:1); c:string = 1 (id:2); d:int (id:3); }\n',
        'rpc_scalar_request': 'table T { a:int; }\nrpc_service S { M(long):T; }\n', 'rpc_string_response': 'table T { a:int; }\nrpc_service S { M(T):string; }\n',
        'rpc_vector_request': 'table T { a:int; }\nrpc_service S { M([T]):T; N([int]):T; O(T):[string]; }\n',
        'empty': '', 'only_ws': ' \n\t ', 'bom': '\xef\xbb\xbftable T { a:int; }\n',
    }
    for k, t in stress.items():
        for o in (GEN_SETS[2], 'bgen_bfbs=1'):
            add_buf('stress:' + k, t, opts=o, gen=2)
    # ---- 6: include chains, cycles, repeats, limits
    def chain(n, bad_at=None):
        fs = {}
        for i in range(n):
            inc = 'include "c%d.fbs";\n' % (i + 1) if i + 1 < n else ''
            body = 'table C%d { a:int%s }\n' % (i, '' if bad_at == i else ';')
            fs['c%d.fbs' % i] = inc + body
        return fs
    for n, depth, expect in ((3, 0, 'accept'), (6, 5, 'accept'), (7, 5, 'reject'), (4, 1, 'reject'), (2, 1, 'accept'), (30, 0, 'accept')):   # n files = n-1 includes
        add_file('include_depth', chain(n), 'c0.fbs', expect, opts='cgen_reader=1,cgen_recursive=1' + (',max_include_depth=%d' % depth if depth else ''), gen=2)
    add_file('include_depth_default_limit', chain(cons['max_include_depth'] + 3), 'c0.fbs', 'reject', opts='cgen_reader=1', gen=2)
    star = {'r.fbs': ''.join('include "l%d.fbs";\n' % i for i in range(8)) + 'table R { a:int; }\n'}
    for i in range(8): star['l%d.fbs' % i] = 'table L%d { a:int; }\n' % i
    add_file('include_count', star, 'r.fbs', 'accept', opts='cgen_reader=1,max_include_count=8', gen=2)
    add_file('include_count', star, 'r.fbs', 'reject', opts='cgen_reader=1,max_include_count=7', gen=2)
    add_file('include_count', star, 'r.fbs', 'reject', opts='bgen_bfbs=1,max_include_count=3', gen=2)
    add_file('include_cycle', {'a.fbs': 'include "b.fbs";\ntable A { x:int; }\n', 'b.fbs': 'include "a.fbs";\ntable B { y:int; }\n'}, 'a.fbs', 'accept', gen=2)
    add_file('include_self', {'a.fbs': 'include "a.fbs";\ntable A { x:int; }\n'}, 'a.fbs', 'accept', gen=2)
    add_file('include_repeat', {'a.fbs': 'include "b.fbs";\ninclude "b.fbs";\ninclude "c.fbs";\ntable A { x:B; y:C; }\n', 'b.fbs': 'include "c.fbs";\ntable B { y:C; }\n',
                                'c.fbs': 'table C { z:int; }\n'}, 'a.fbs', 'accept', gen=2)
    add_file('include_missing', {'a.fbs': 'include "nope.fbs";\ntable A { x:int; }\n'}, 'a.fbs', 'reject', opts=GEN_SETS[1], gen=2)
    add_file('include_missing', {'a.fbs': 'include "nope.fbs";\ntable A { x:int; }\n'}, 'a.fbs', 'reject', opts='bgen_bfbs=1', gen=2)
    add_file('include_bad_deep', chain(4, bad_at=3), 'c0.fbs', 'reject', opts=GEN_SETS[2], gen=2)
    add_file('include_bad_deep', chain(4, bad_at=3), 'c0.fbs', 'reject', opts='bgen_bfbs=1', gen=2)
    add_file('include_bad_mid', chain(4, bad_at=1), 'c0.fbs', 'reject', opts='cgen_common_reader=1,cgen_common_builder=1', gen=2)
    add_file('include_too_big', {'a.fbs': 'include "b.fbs";\ntable A { x:int; }\n', 'b.fbs': 'table B { y:int; }\n' + '// pad\n' * 100}, 'a.fbs', 'reject',
             opts='cgen_reader=1,cgen_common_reader=1,max_schema_size=200', gen=2)
    add_file('root_too_big', {'a.fbs': 'table A { x:int; }\n' + '// pad\n' * 100}, 'a.fbs', 'reject', opts='bgen_bfbs=1,max_schema_size=100', gen=2)
    add_file('root_missing', {'a.fbs': 'table A { x:int; }\n'}, 'zz.fbs', 'reject', opts=GEN_SETS[1], gen=2)
    # files are read by fb_read_file (not by the caller): ends of file that the lexer scans up to a terminator
    for k, tail in enumerate(['7', 'table T { a:int = 1', 'table T3 { 0', 'struct S { a:[int:3', 'table T { a:float = 1.5e1', 'table T { abc', 'table T { a:int; } // 9',
                              'table T { a:int; }\nfile_identifier "AB', 'enum E:int { A = 0x1f', 'table T { a:int; } /* 1']):
        add_file('file_end:%d' % k, {'a.fbs': tail}, 'a.fbs', None, gen=2)
        add_file('file_end_included:%d' % k, {'a.fbs': 'include "b.fbs";\ntable A { x:int; }\n', 'b.fbs': tail}, 'a.fbs', None, gen=2)
    for t in sorted(valid_texts, key=len)[:1]:
        b = t.encode()
        for cut in range(0, len(b) + 1, 1 if T else 3):
            add_file('file_truncation', {'a.fbs': b[:cut]}, 'a.fbs', None, opts='cgen_reader=1', gen=2)
    add_file('include_subdir', {'a.fbs': 'include "sub/b.fbs";\ntable A { x:B; }\n', 'sub/b.fbs': 'include "c.fbs";\ntable B { y:C; }\n', 'sub/c.fbs': 'table C { z:int; }\n'},
             'a.fbs', None, gen=2)
    add_file('include_type_not_visible', {'a.fbs': 'include "b.fbs";\ntable A { x:int; }\n', 'b.fbs': 'table B { y:A; }\n'}, 'a.fbs', 'reject', gen=2)
    for _ in range(60 if T else 15):
        s = G.gen_schema(random.Random(rng.getrandbits(64)), 'small', nfiles=rng.choice([2, 3]))
        fs = s.render(); victim = rng.choice(sorted(fs))
        fs[victim] = G.mutate_text(rng, fs[victim])
        add_file('include_mutated', fs, s.files[0].name + '.fbs', None)

    # ---- non-seekable schema files (FIFO): root and included, default and unlimited size option
    fifo_n = [0]
    def add_fifo(klass, content, include, opts):
        fifo_n[0] += 1
        d = os.path.join(incroot, 'f%d' % fifo_n[0]); os.makedirs(d, exist_ok=True)
        fifo = os.path.join(d, 'p.fbs')
        if include:
            rootp = os.path.join(d, 'a.fbs'); open(rootp, 'w').write('include "p.fbs";\ntable A { x:int; }\n')
        else: rootp = fifo
        cases.append({'klass': klass, 'kind': 'fifo', 'opts': opts + ',inpath=' + d, 'gen': 2, 'path': rootp, 'fifo': fifo, 'data': content.encode(),
                      'files': {'p.fbs (FIFO)': content}, 'expect': None})
    for content in ('table P { a:int; }\n', valid_texts[0], 'table P { a:int; }\n' + '// pad\n' * 20000, '', '7'):
        for include in (False, True):
            for o in ('cgen_reader=1', 'cgen_reader=1,max_schema_size=0', 'bgen_bfbs=1,max_schema_size=0', 'cgen_reader=1,max_schema_size=64'):
                add_fifo('nonseekable_file', content, include, o)
    rng.shuffle(cases)
    # ---- run: N parallel harness processes, each a long history of cycles
    nproc = 16
    chunks = [cases[i::nproc] for i in range(nproc)]

    def runchunk(a):
        idx, ch = a
        od = os.path.join(ctx.bdir, 'out%d' % idx); os.makedirs(od, exist_ok=True)
        lines = []
        for c in ch:
            if c['kind'] == 'buf': lines.append('buf %s %d %s %s %s' % (c['opts'], c['gen'], od, c['name'], hx(c['data'])))
            elif c['kind'] == 'fifo': lines.append('fifo %s %d %s %s %s %s' % (c['opts'], c['gen'], od, c['path'], c['fifo'], hx(c['data'])))
            else: lines.append('file %s %d %s %s' % (c['opts'], c['gen'], od, c['path']))
        open(os.path.join(ctx.bdir, 'chunk%d.txt' % idx), 'w').write('\n'.join(lines) + '\n')
        h = lib.Harness(exe, env={'ASAN_OPTIONS': 'detect_leaks=1:abort_on_error=0:allocator_may_return_null=1:detect_stack_use_after_return=0',
                                  'LSAN_OPTIONS': 'report_objects=0:print_suppressions=0', 'UBSAN_OPTIONS': 'print_stacktrace=1',
                                  'COMPILE_FUZZ_ALARM': '20' if T else '6', 'COMPILE_FUZZ_FLOOD': '20000'})
        return run_lines(h, lines)
    ctx.log('%d cases in %d histories' % (len(cases), nproc))
    res = U.pmap(runchunk, list(enumerate(chunks)), n=nproc)

    nacc = nrej = 0
    for ch, rs in zip(chunks, res):
        for c, r in zip(ch, rs):
            v = judge(ctx, c, r)
            if v > 0: nacc += 1
            elif v < 0: nrej += 1
    ctx.cov['accepted'] = nacc; ctx.cov['rejected'] = nrej
    if OOM_EXITS:
        ctx.cov['allocation_failure_exits'] = ['%s %s' % x for x in OOM_EXITS[:20]]
        ctx.notes.append('%d case(s) ended in checkmem(): allocator returned NULL for an absurd request (e.g. vt_max_count=-1), flatcc printed "out of memory, aborting" and called exit(1); '
                         'allocation-failure policy of the compiler library, not judged by C06' % len(OOM_EXITS))
    if UB_NOTES:
        ctx.cov['arithmetic_ub_sites'] = dict(UB_NOTES)
        ctx.notes.append('arithmetic undefined behaviour observed (not a clause of C06, reported to C08): %r' % sorted(UB_NOTES))
        ctx.log('arithmetic UB sites (noted, not judged here):', sorted(UB_NOTES))
    ctx.sample({'case': cases[0]['klass'], 'reply': res[0][0]})
    ctx.sample({'case': cases[1]['klass'], 'reply': res[1][0]})
    ctx.log('accepted %d rejected %d' % (nacc, nrej))

    # ---- CLI exit status on a sample
    cli = os.path.join(ctx.bdir, 'cli'); os.makedirs(cli, exist_ok=True)
    sample = [c for c in cases if c['expect'] in ('accept', 'reject')][:(120 if T else 40)] + [c for c in cases if c['klass'].startswith(('include_', 'stress'))][:40]
    def clijob(a):
        i, c = a
        d = os.path.join(cli, 'j%d' % i); out = os.path.join(d, 'out'); os.makedirs(out, exist_ok=True)
        if c['kind'] == 'buf':
            p = os.path.join(d, 'in.fbs'); open(p, 'wb').write(c['data']); inc = d
        else:
            p = c['path']; inc = os.path.dirname(c['path'])
        rc, so, se = U.run([flatcc, '-a', '--json', '-o', out, '-I', inc, p], timeout=60)
        n = len(os.listdir(out))
        shutil.rmtree(d, ignore_errors=True)
        return rc, n, se
    for c, (rc, n, se) in zip(sample, U.pmap(clijob, list(enumerate(sample)))):
        ctx.count('cli' + repr((c.get('data'), c.get('path'))), klass='cli_exit_status')
        rp = replay_of(c, 'cli rc=%s files=%d stderr=%s' % (rc, n, se[:200]))
        if rc < 0 or rc in (124, 134, 139):
            ctx.violation('cli-crash', 'flatcc executable died (rc %s) on %s' % (rc, c['klass']), rp)
        elif c['expect'] == 'accept' and rc != 0 and 'max_' not in c['opts']:
            ctx.violation('cli-valid-rejected', 'flatcc executable rejected a valid schema: ' + se[:200], rp)
        elif c['expect'] == 'reject' and rc == 0 and 'max_' not in c['opts'] and 'ascending' not in c['opts']:
            ctx.violation('cli-invalid-accepted', 'flatcc executable exit status 0 for a schema violating ' + c['klass'], rp)
        elif rc != 0 and (n > 0 or not se.strip()):
            ctx.violation('cli-failure-protocol', 'flatcc executable failed (rc %s) but %s' % (rc, 'left %d output files' % n if n else 'printed no diagnostic'), rp)

    # ---- CLI with SEVERAL source files: exit status must be non-zero iff any diagnostic was printed, whichever position the failing
    #      file has; no output file may exist for the failing input
    goods = [t for t in valid_texts[:8]]
    bads = ['table Bad { a:int }\n', 'table Bad { a:NoSuchType; }\n', 'struct Bad { }\n', 'table Bad { a:int (id: 1); }\n', 'enum Bad:ubyte { A = 300 }\n', 'tabel Bad { }\n']
    optsets = [[], ['-a'], ['-a', '--json'], ['--stdout'], ['-a', '--stdout'], ['--schema'], ['-w'], ['-v'], ['--json'], ['-c', '-w', '-r'], ['--outfile=OUT'], ['-d']]
    mjobs = []
    for k in range(60 if T else 24):
        ng = rng.choice([1, 2, 3])
        pos = rng.choice(['first', 'middle', 'last', 'none', 'none2'] if ng > 1 else ['first', 'last', 'none'])
        mjobs.append((k, [rng.choice(goods) for _ in range(ng)], rng.choice(bads), pos, optsets[k % len(optsets)]))
    def mjob(a):
        k, gs, bad, pos, opts = a
        d = os.path.join(cli, 'm%d' % k); out = os.path.join(d, 'out'); os.makedirs(out, exist_ok=True)
        names = []
        for j, t in enumerate(gs):
            p = os.path.join(d, 'good%d.fbs' % j); open(p, 'w').write(t); names.append(p)
        if not pos.startswith('none'):
            bp = os.path.join(d, 'badfile.fbs'); open(bp, 'w').write(bad)
            names.insert({'first': 0, 'middle': max(1, len(names) // 2), 'last': len(names)}[pos], bp)
        o = [x.replace('OUT', os.path.join(out, 'cat.h')) for x in opts]
        rc, so, se = U.run([flatcc] + o + ['-o', out, '-I', d] + names, timeout=60)
        files = sorted(os.listdir(out))
        shutil.rmtree(d, ignore_errors=True)
        return rc, files, se, len(so), [os.path.basename(n) for n in names]
    for (k, gs, bad, pos, opts), (rc, files, se, nso, names) in zip(mjobs, U.pmap(mjob, mjobs)):
        ctx.count('clim%d' % k, klass='cli_multi_file')
        diag = 'error' in se
        rp = {'klass': 'cli_multi_file', 'command': 'flatcc %s -o out %s' % (' '.join(opts), ' '.join(names)), 'failing_file_position': pos,
              'files': dict([('good%d.fbs' % j, t) for j, t in enumerate(gs)] + ([] if pos.startswith('none') else [('badfile.fbs', bad)])),
              'exit_status': rc, 'stderr': se[:600], 'output_files': files}
        badout = [f for f in files if f.startswith('badfile')]
        if rc < 0 or rc in (124, 134, 139):
            ctx.violation('cli-crash', 'flatcc executable died (rc %s) on several source files' % rc, rp)
        elif diag and rc == 0:
            ctx.violation('cli-multi-file:success-with-diagnostic', 'flatcc exits 0 although it printed a diagnostic for one of its source files (failing file %s of %d): %s' % (
                pos, len(names), se.strip().split('\n')[0][:160]), rp)
        elif not diag and rc != 0:
            ctx.violation('cli-multi-file:failure-without-diagnostic', 'flatcc exits %s without an error diagnostic' % rc, rp)
        elif badout:
            ctx.violation('cli-multi-file:output-for-failed-input', 'flatcc left output %r for the source file it rejected' % badout, rp)
        elif pos.startswith('none') and rc == 0 and not files and nso == 0:
            ctx.violation('cli-multi-file:no-output', 'flatcc exits 0 for valid source files but produced nothing', rp)

    ctx.trusted = lib.DEFAULT_TRUSTED + ['clang ASan/UBSan/LSan runtimes as the only observers of memory errors, leaks (per cycle: __lsan_do_recoverable_leak_check) and alarm() of hangs',
                                         'harness/compile_fuzz.c, gen/schema_gen.py (validity and one-rule-invalidity of generated ASTs)']
    ctx.assumptions = ['memory safety / leak freedom / termination of the C front end are MONITORED on the generated inputs, not proved',
                       'diagnostics of the code generator go to stderr by design (flatcc.h) and are not counted by the callback',
                       'allocation failure (checkmem -> exit) is outside this check']
    ctx.finish_args = dict(
        rule='input classes: valid ASTs (buffer and file interface), ASTs invalid by one of ~40 semantic rules, token-level mutations, truncation at every byte, '
             'random bytes / token soup, limit-aimed stress shapes, include chains/cycles/repeats/limits/missing/mutated, x 21 generator option sets and parser option '
             'toggles, generate called only-on-success or always; 16 parallel histories of create/parse/generate/destroy cycles; CLI exit status on a sample and on command lines with several source files (failing file first / middle / last / absent, 12 option sets). '
             'distinct = distinct (options, input) pairs; every case runs the full cycle',
        explanation='protocol theorems re-checked (thin); every case judged by the property statement (crash/sanitizer/leak/hang, rc vs diagnostics, no output after a failed parse, '
                    'expected accept/reject for generated ASTs)')
