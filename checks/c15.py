"""C15 - Nested buffers are self-contained and correctly aligned.

1. Re-check Properties_C15.vo.
2. Nested-heavy build scripts (schemas with nested_flatbuffer fields whose target is a table or a struct, nested in nested,
   size prefix / identifiers / block alignment on the nested buffer, parent clustering on and off, start/end-as-root and
   create-as-root styles) through the real runtime API and the extracted model: byte-exact emit streams.
3. On the IMPLEMENTATION's bytes: every nested ubyte vector is located by an independent reader, copied out and
   (a) verified standalone by the generated verifier of the nested root type at an address aligned to the nested content's
   own requirement only, (b) read back through the generated reader (dump == nested value), (c) decoded by the extracted
   independent decoder in isolation (self-contained: no reference leaves the vector, no vtable shared with the parent or a
   sibling), (d) address arithmetic: the nested content starts at an offset from the parent's start that is a multiple of
   the largest alignment any element inside needs, and the parent reports at least that alignment.
"""
import json, os
from . import lib
from . import builder_util as bu
from .builder_engine import Engine


def run(ctx):
    ok = ctx.check_theorems()
    if os.path.exists(os.path.join(lib.COQ, 'Properties', 'Properties_C15b.v')):     # nested_self_contained / nested_aligned, plain nesting at any depth
        ok = ctx.check_theorems(prop_module='Properties_C15b') and ok
    if not ok:
        ctx.broken_obligation('Properties_C15.vo', getattr(ctx, 'broken', {}))
    E = Engine(ctx, with_gen_api=True)
    rng = ctx.rng
    if ctx.replay_in:
        from .builder_engine import replay
        replay(E, ctx)
        return
    cases = []
    nested_schemas = [s for s in E.corpus if s.name in ('bnest', 'bmixd') and s.name in E.BC]
    n = 420 if not ctx.thorough else 4000
    for s in nested_schemas:
        for i in range(n):
            md = rng.choice([2, 3, 3, 4]) if not ctx.thorough else rng.choice([2, 3, 4, 6, 8])
            c = E.make_case(rng, s, maxdepth=md, size=rng.choice([0.3, 1.0]), klass='nested')
            cases.append(c)
        # the generated <field>_nest / _typed_nest with align argument 0 / 1 / 4 (raised to the struct's alignment for struct targets)
        for i in range(60 if not ctx.thorough else 600):
            cases.append(E.make_case(rng, s, maxdepth=2, size=0.3, klass='nested-generated-nest', gen_api=True, full=True, nest_only=True, embed_bias=0.0))
        # flatcc_builder_embed_buffer: existing bytes embedded at any depth (directly inside the top-level buffer as well as inside nested
        # levels) with the align argument 1..256 (at least the content's), block_align argument 0..256, with and without the with_size flag
        for i in range(n // 2):
            cases.append(E.make_case(rng, s, maxdepth=rng.choice([3, 4]), size=rng.choice([0.3, 1.0]), klass='nested-embed', embed_bias=0.7, embed_min_depth=1 + i % 2))
        # every nested field of the TOP-LEVEL buffer filled by embed_buffer (depth 1: nest_id 0 but level 1), parents plain / size prefixed,
        # block_align 0..256, clustering on / off; deeper levels built in place or embedded
        for i in range(n // 2):
            cases.append(E.make_case(rng, s, maxdepth=rng.choice([1, 2, 3]), size=rng.choice([0.3, 1.0]), klass='embed-top-level',
                                     embed_bias=rng.choice([0.0, 0.5]), embed_top=1.0, embed_ws=rng.choice([0.0, 0.3, 1.0])))
        # nested struct roots through the GENERATED <field>_create_as_root (create_buffer with is_nested, no start_buffer)
        for i in range(n // 3):
            cases.append(E.make_case(rng, s, maxdepth=rng.choice([2, 3]), size=rng.choice([0.3, 1.0]), klass='nested-generated-api', gen_api=True))
    if nested_schemas and nested_schemas[0].name == 'bnest':
        # 34..80 and more nested buffers in ONE build (chain + siblings) that repeat the parent's and each other's table shapes: every one is
        # extracted and must stand alone (no vtable shared with the parent or a sibling, whatever their nest ids)
        for i in range(10 if not ctx.thorough else 100):
            cases.append(E.make_many_nested_case(rng, rng.choice([9, 12, 16, 20, 24]), styles=i % 2 == 1))
    E.run_builds(cases)
    E.embed_no_parent(rng, 40 if not ctx.thorough else 400)        # level 0: bytes as they are, no size field header (documented)
    # nested / embedded content with alignment arguments above the 512 byte padding block (embed_buffer align 1024, block_align 1024..32768 of
    # embed_buffer and of a nested start_buffer, a vector aligned to 1024 inside a nested buffer): own harness process per script, one key
    E.align_above_512(rng, 8 if not ctx.thorough else 80, nested_only=True)
    # the low-level bracket push_buffer_alignment / create_buffer(is_nested) / pop_buffer_alignment for nested struct roots aligned 8..256
    E.push_pop_alignment(rng, 30 if not ctx.thorough else 300)
    # nested root types declared in an INCLUDED schema file with its own file_identifier, through every generated nested-root builder
    from . import c15_incl
    c15_incl.run(ctx)
    ver_items, ver_meta, dump_items, dec_lines, dec_meta = [], [], [], [], []
    nnested = 0
    for c in cases:
        ctx.count(c.h, klass='build:' + c.klass)
        for k, v in c.gen.kinds.items():
            g = ctx.cov['generator_histogram']; g['style:' + k] = g.get('style:' + k, 0) + v
        if c.hrep.startswith('CRASH'):
            ctx.violation('crash:' + E.crash_key(c.hrep), 'the builder crashes (sanitizer) while building nested buffers: ' + c.hrep[:400],
                          {'harness_line': c.h, 'model_line': c.m, 'schema': c.schema.name}); continue
        if c.himpl is None:
            ctx.violation('build-failed:nested', 'a builder call fails on a correct use of the API: ' + c.hrep[:200], {'harness_line': c.h, 'schema': c.schema.name}); continue
        s = c.schema
        raw, align = c.himpl['raw'], c.himpl['align']
        hp = 4 if c.opts['with_size'] else 0
        lost = bu.embed_header_lost(s, c.node, raw, hp)
        if lost:
            ctx.violation('embed-top-level-no-header',
                          'embed_buffer called inside the open top-level buffer emitted the bytes without the ubyte vector length: nested field %s of the finished parent '
                          'points straight at the embedded bytes (their first word is read as the vector length)' % lost[0],
                          {'harness_line': c.h, 'model_line': c.m, 'schema': s.name, 'buffer_hex': raw.hex(), 'path': lost[0]}); continue
        rd = bu.PyReader(raw)
        ext, objs = [], []
        try:
            bu.nested_extents(s, c.node, rd, rd.follow(hp), ext, '', objs, 0)
        except Exception as e:
            ctx.violation('nested-walk-failed', 'independent reader cannot locate the nested buffers in the finished parent: %r' % e,
                          {'harness_line': c.h, 'schema': s.name, 'buffer_hex': raw.hex()}); continue
        base = {'harness_line': c.h, 'model_line': c.m, 'schema': s.name, 'buffer_hex': raw.hex(), 'reported_alignment': align}
        parent_req = bu.req_align(s, c.node)
        if align < parent_req or align % parent_req:
            ctx.violation('parent-alignment-too-small', 'parent reports alignment %d but its content (incl. nested buffers) needs %d' % (align, parent_req), base)
        # no object or vtable of the enclosing buffer (or of a sibling nested buffer) may lie inside a nested vector
        for path, p, ln, v, level in ext:
            for (lv, tpos, vs, ve) in objs:
                if lv == level and (p - 4 <= tpos < p + ln or (vs < p + ln and ve > p - 4)):
                    ctx.violation('nested-overlaps-parent-object', 'nested vector %s [%d,%d) contains a table / vtable of the enclosing buffer (table %d, vtable [%d,%d))'
                                  % (path, p - 4, p + ln, tpos, vs, ve), dict(base, path=path)); break
            for path2, p2, ln2, v2, level2 in ext:
                if level2 == level and p2 != p and p2 - 4 < p + ln and p - 4 < p2 + ln2:
                    ctx.violation('nested-overlaps-sibling', 'nested vectors %s and %s overlap' % (path, path2), dict(base, path=path)); break
        for path, p, ln, v, level in ext:
            nnested += 1
            req = bu.req_align(s, v)
            sized = v.c['with_size']
            start = p - 4 if sized else p        # the aligned unit: with the size flag the length field doubles as size prefix
            nb = raw[start:p + ln]
            ctx.count('%s|%s|%d' % (c.h, path, p), klass='nested-extraction' + ('-sized' if sized else ''))
            if p + ln > len(raw):
                ctx.violation('nested-out-of-parent', 'nested vector %s extends beyond the parent buffer' % path, dict(base, path=path)); continue
            if start % req:
                ctx.violation('nested-misaligned:%s' % ('sized' if sized else 'plain'),
                              'nested buffer %s starts at offset %d of the parent, not a multiple of %d (the alignment its content needs)' % (path, start, req),
                              dict(base, path=path, offset=start, required=req))
            elif v.c.get('embed_al') and (start % v.c['embed_al'] or align % v.c['embed_al']):
                # embed_buffer(align, block_align): the start is a multiple of max(align, 4, block_align) and the parent reports at least that
                ctx.violation('nested-misaligned:embed-argument', 'embedded buffer %s starts at offset %d of a parent reporting alignment %d; embed_buffer was asked for %d'
                              % (path, start, align, v.c['embed_al']), dict(base, path=path, offset=start, required=v.c['embed_al']))
            nid, nhp = v.c.get('ident'), 4 if sized else 0
            if nid and any(nid) and not v.c.get('indep') and not c.gen.gen_api and nb[nhp + 4:nhp + 8] != nid:
                ctx.violation('nested-identifier-not-stored', 'nested buffer %s was started with identifier %s (4 bytes, not a string) but its header holds %s'
                              % (path, nid.hex(), nb[nhp + 4:nhp + 8].hex()), dict(base, path=path))
            root = v.a
            ri = bu.roots_of(s).index(root)
            am = req if req < 256 else 0
            ver_items.append((s.name, 'verify %d %d 1 - 0 %d %s' % (ri, 1 if sized else 0, am, nb.hex() if nb else '-')))
            ver_meta.append((c, path, v, nb, 'verify'))
            dump_items.append((s.name, 'dump %d %d %d %s' % (ri, 1 if sized else 0, am, nb.hex() if nb else '-')))
            dec_lines.append(E.dec_line(s, root, 1 if sized else 0, bu.value_depth(v.b) + 2, req, nb)); dec_meta.append((c, path, v, nb))
    vres = E.run_bc_all(ver_items)
    dres = E.run_bc_all(dump_items)
    for (name, line), (c, path, v, nb, _), r, (_, dline), d in zip(ver_items, ver_meta, vres, dump_items, dres):
        base = {'harness_line': c.h, 'schema': name, 'path': path, 'nested_hex': nb.hex(), 'verify_line': line}
        kind = ('struct' if v.a in c.schema.structs else 'table') + ('-sized' if v.c['with_size'] else '')
        sized_aligned = bu.has_sized_nested_aligned(c.schema, v.b)
        if r is None or d is None: continue
        if r.startswith('CRASH') or d.startswith('CRASH'):
            ctx.violation('nested-standalone-crash:' + kind, 'sanitizer report while verifying / reading an extracted nested buffer: ' + (r + d)[:300], base); continue
        if not r.startswith('0 '):
            # one key for the size-prefixed nested layout whatever alignment test of the verifier trips over it
            err = '_'.join(r.split()[1:])
            ctx.violation('nested-standalone-rejected:contains-nested-with-size:' + err
                          if (sized_aligned and err in ('vector_header_out_of_range_or_unaligned', 'struct_unaligned')) else
                          'nested-standalone-rejected:%s:%s' % (kind, err),
                          'nested buffer %s copied out of the parent is rejected by the generated verifier of its root type: %s' % (path, r), base)
        exp = bu.render_dump(c.schema, v.b, v.a)
        if d != exp:
            ctx.violation('nested-standalone-reads-differently:' + kind,
                          'nested buffer %s copied out of the parent reads back differently through the generated reader' % path,
                          dict(base, expected=exp[:1500], dumped=d[:1500]))
    mres = ctx.run_model('builder', dec_lines) if dec_lines else []
    for (c, path, v, nb), line, r in zip(dec_meta, dec_lines, mres):
        exp = bu.render_dec(c.schema, v.b)
        kind = ('struct' if v.a in c.schema.structs else 'table') + ('-sized' if v.c['with_size'] else '')
        if r != exp:
            ctx.violation('nested-not-self-contained:' + kind,
                          'nested buffer %s copied out of the parent is not a complete well-formed buffer on its own (independent decoder: %s)' % (path, r[:80]),
                          {'harness_line': c.h, 'schema': c.schema.name, 'path': path, 'nested_hex': nb.hex(), 'dec_line': line[:3000], 'expected': exp[:1500]})
    # model / implementation
    known_keys = lib.load_findings()[0]

    def unexplained():
        """violations recorded so far that are not known findings (a known finding must not hide a model / implementation disagreement)"""
        return [v for v in ctx.violations if (ctx.pid, v['key']) not in known_keys]
    for c in cases:
        if c.himpl is not None and c.mimpl is not None and c.hrep != c.mrep and not unexplained():
            what = [k for k in ('refs', 'align', 'start', 'end', 'bytes', 'emits') if c.himpl.get(k) != c.mimpl.get(k)]
            ctx.violation('corr:build:' + '+'.join(what), 'model and implementation disagree on a nested build script (%s differ)' % ','.join(what),
                          {'theorem_or_correspondence': 'correspondence of the extracted builder model (coq/Builder, modelrun_builder) with src/runtime/builder.c on this script; every independent clause check (format decoder, alignment, read-back, verifier) passed on the implementation output', 'harness_line': c.h, 'model_line': c.m, 'schema': c.schema.name, 'impl': c.hrep[:3000], 'model': c.mrep[:3000]},
                          kind='no-failing-input-found')
        elif c.himpl is not None and c.mimpl is None:
            ctx.violation('corr:model-fails', 'model fails where the implementation succeeds', {'harness_line': c.h, 'model_line': c.m})
    ctx.log('%d cases, %d nested buffers extracted' % (len(cases), nnested))
    ctx.cov['generator_histogram']['nested_buffers_extracted'] = nnested
    if dec_lines: ctx.sample({'nested_case': cases[0].h[:300], 'first_nested_dec': dec_lines[0][-200:], 'decoded': mres[0][:200]})
    ctx.trusted = lib.DEFAULT_TRUSTED + ['checks/builder_util.py (generators, independent reader PyReader, req_align)', 'harness/build_script.c, harness/buf_check.c', 'checks/c15_incl.py + harness/nested_incl.c (include pair: nested root types from another schema file)']
    ctx.assumptions = ['little-endian host', 'nested buffers created with start/end_buffer inside an open parent buffer, create_buffer(is_nested) for struct roots as the generated code does, or embed_buffer at any depth >= 1 (and with no buffer open: plain emission)']
    ctx.finish_args = dict(
        rule='cases: schemas bnest/bmixd (nested table and struct roots, nested in nested up to the generator depth, alignments 1..32 inside nested content), '
             'nested size prefix / identifier / block_align 0,8,64, parent clustering on/off, size-prefixed parents; embed_buffer at depth 1..n with align 1..256, block_align 0..256, with_size on/off, and with no buffer open; every nested vector of every finished parent is one '
             'extraction case (standalone verify + reader dump + independent decode + address arithmetic)',
        explanation='theorems of Properties_C15 re-checked; emit-stream correspondence on nested-heavy scripts; every nested buffer of the implementation output extracted and checked in isolation')
