"""Helpers of checks/c11.py: values of harness/print_sweep.fbs as python dicts, their JSON text (input of the C side)
and their model value (input of modelrun_printer), generators, record parsing, parallel runners."""
import base64, json, os, struct, subprocess, threading
from . import lib

LN = 'n' + 'a123456789' * 9 + 'bcdefghij'      # 100 characters: FLATCC_JSON_PRINT_NAME_LEN_MAX
LU = 'u' + 'b123456789' * 9 + 'cdefghijk'
assert len(LN) == 100 and len(LU) == 100

E_SYMS = {-3: 'Neg', 0: 'A', 1: 'B', 7: 'LongSymbolNameForAnEnumValueOfFortyTwoChars', 9: 'Sym31_abcdefghijklmnopqrstuvwxy'}
F31 = 'e31_abcdefghijklmnopqrstuvwxyza'   # 31-character field name of enum type: name and symbol are printed back to back
C_SYMS = ['Red', 'Green', 'Blue', 'Alpha']
U_NAMES = {'NONE': 0, 'T': 1, 'S': 2, 'str': 3}

# union vector fields whose names have every length 90..100 (the documented maximum) and two beyond it (101, 105)
UVNAMES = [('w%d_' % n) + 'x' * (n - len('w%d_' % n)) for n in list(range(90, 101)) + [101, 105]]

# field order of table T = print order; kind drives JSON and model construction
T_FIELDS = [('i', 'int'), ('d', 'double'), ('s', 'string'), ('b', 'b64'), ('bu', 'b64url'), ('t', 'table'),
            ('tv', 'tablevec'), ('u', 'union'), ('uv', 'unionvec'), ('st', 'S'), ('q', 'Q'), ('sv', 'Svec'),
            ('strs', 'strvec'), ('iv', 'intvec'), ('e', 'E'), ('c', 'C'), ('ev', 'Evec'), ('cv', 'Cvec'),
            ('nest', 'table'), ('o', 'optint'), ('f', 'float'), ('bo', 'bool'), ('u64', 'int'), ('dv', 'doublevec'),
            (LN, 'int'), (LU, 'unionvec'), (F31, 'E')] + [(n, 'unionvec') for n in UVNAMES if len(n) <= 100] + [('t2', 'table2')]
T2_FIELDS = [('i', 'int')] + [(n, 'unionvec') for n in UVNAMES if len(n) > 100]
SCALAR_DEFAULTS = {'i': 0, 'd': 0.0, 'e': 0, 'c': 1, 'f': 0.0, 'bo': False, 'u64': 0, LN: 0, F31: 0}


def hx(b):
    b = bytes(b)
    return b.hex() if b else '-'


def f32(x):
    return struct.unpack('<f', struct.pack('<f', x))[0]


def dbits(x):
    return '%016x' % struct.unpack('<Q', struct.pack('<d', x))[0]


def fbits(x):
    return '%08x' % struct.unpack('<I', struct.pack('<f', x))[0]


# ---------------------------------------------------------------- JSON text for the generated parser
def jstr_bytes(b):
    """JSON string literal as bytes; bytes >= 0x80 are passed through raw (the parser copies them)."""
    out = bytearray(b'"')
    for c in bytes(b):
        if c == 0x22: out += b'\\"'
        elif c == 0x5c: out += b'\\\\'
        elif c < 0x20: out += b'\\u%04x' % c
        else: out.append(c)
    out += b'"'
    return bytes(out)


def jnum(x):
    if isinstance(x, bool): return b'true' if x else b'false'
    if isinstance(x, float): return repr(x).encode()
    return str(x).encode()


def s_json(s):
    return b'{"x":%d,"y":[%s]}' % (s['x'], b','.join(jnum(v) for v in s['y']))


def q_json(q):
    return (b'{"s":' + s_json(q['s']) + b',"a":[' + b','.join(s_json(x) for x in q['a']) + b'],"c":[' +
            b','.join(jnum(v) for v in q['c']) + b'],"e":' + jnum(q['e']) + b',"ea":[' + b','.join(jnum(v) for v in q['ea']) +
            b'],"f":' + jnum(q['f']) + b'}')


def member_json(kind, val):
    if kind == 'T': return t_json(val)
    if kind == 'S': return s_json(val)
    if kind == 'str': return jstr_bytes(val)
    return b'null'


def t_json(t, fields=None):
    parts = []
    for name, kind in (fields or T_FIELDS):
        if name not in t: continue
        v = t[name]; n = b'"' + name.encode() + b'":'
        if kind in ('int', 'double', 'float', 'bool', 'optint', 'E', 'C'): parts.append(n + jnum(v))
        elif kind == 'string': parts.append(n + jstr_bytes(v))
        elif kind == 'b64': parts.append(n + b'"' + base64.b64encode(v) + b'"')
        elif kind == 'b64url': parts.append(n + b'"' + base64.urlsafe_b64encode(v) + b'"')
        elif kind == 'table': parts.append(n + t_json(v))
        elif kind == 'table2': parts.append(n + t_json(v, T2_FIELDS))
        elif kind == 'tablevec': parts.append(n + b'[' + b','.join(t_json(x) for x in v) + b']')
        elif kind == 'union':
            parts.append(b'"' + name.encode() + b'_type":"' + v[0].encode() + b'"')
            parts.append(n + member_json(*v))
        elif kind == 'unionvec':
            parts.append(b'"' + name.encode() + b'_type":[' + b','.join(b'"' + k.encode() + b'"' for k, _ in v) + b']')
            parts.append(n + b'[' + b','.join(member_json(k, x) for k, x in v) + b']')
        elif kind == 'S': parts.append(n + s_json(v))
        elif kind == 'Q': parts.append(n + q_json(v))
        elif kind == 'Svec': parts.append(n + b'[' + b','.join(s_json(x) for x in v) + b']')
        elif kind == 'strvec': parts.append(n + b'[' + b','.join(jstr_bytes(x) for x in v) + b']')
        elif kind in ('intvec', 'doublevec', 'Evec', 'Cvec'): parts.append(n + b'[' + b','.join(jnum(x) for x in v) + b']')
        else: raise ValueError(kind)
    return b'{' + b','.join(parts) + b'}'


# ---------------------------------------------------------------- model value tokens
class Fmt:
    """number texts as the implementation formats them (harness `fmt`), filled in before model values are built"""
    def __init__(self): self.d, self.f = {}, {}


def collect_floats(t, acc_d, acc_f):
    for name, kind in T_FIELDS:
        if name not in t: continue
        v = t[name]
        if kind == 'double': acc_d.add(v)
        elif kind == 'float': acc_f.add(v)
        elif kind == 'doublevec': acc_d.update(v)
        elif kind in ('table',): collect_floats(v, acc_d, acc_f)
        elif kind == 'tablevec':
            for x in v: collect_floats(x, acc_d, acc_f)
        elif kind == 'union':
            if v[0] == 'T': collect_floats(v[1], acc_d, acc_f)
        elif kind == 'unionvec':
            for k, x in v:
                if k == 'T': collect_floats(x, acc_d, acc_f)
        elif kind == 'Q': acc_f.add(v['f'])
    acc_d.add(0.0); acc_f.add(0.0)


def tok_num(txt): return ['N', hx(txt.encode() if isinstance(txt, str) else txt)]


def tok_e(v):
    if v in E_SYMS: return ['ES', hx(E_SYMS[v].encode()), hx(str(v).encode())]
    return ['EN', hx(str(v).encode())]


def tok_c(v):
    if v == 0 or (v & 0xf0): return ['EN', hx(str(v).encode())]
    syms = [C_SYMS[i] for i in range(4) if v & (1 << i)]
    return ['EF', str(len(syms))] + [hx(s.encode()) for s in syms] + [hx(str(v).encode())]


def tok_field(name, vt): return ['F', hx(name.encode())] + vt


def tok_vec(k, elems):
    out = ['V', k, str(len(elems))]
    for e in elems: out += e
    return out


def tok_s(s):
    return ['R', '2'] + tok_field('x', tok_num(str(s['x']))) + tok_field('y', tok_vec('n', [tok_num(str(v)) for v in s['y']]))


def tok_q(q, fmt):
    return (['R', '6'] + tok_field('s', tok_s(q['s'])) + tok_field('a', tok_vec('p', [tok_s(x) for x in q['a']])) +
            tok_field('c', tok_vec('n', [tok_num(str(v)) for v in q['c']])) + tok_field('e', tok_e(q['e'])) +
            tok_field('ea', tok_vec('n', [tok_e(v) for v in q['ea']])) + tok_field('f', tok_num(fmt.f[q['f']])))


def tok_member(kind, val, fmt, force):
    if kind == 'T': return tok_t(val, fmt, force)
    if kind == 'S': return tok_s(val)
    if kind == 'str': return ['S', hx(val)]
    return ['Z']


def tok_utype(kind): return ['ES', hx(kind.encode()), hx(str(U_NAMES[kind]).encode())]


def scalar_tok(name, kind, v, fmt):
    if kind == 'double': return tok_num(fmt.d[v])
    if kind == 'float': return tok_num(fmt.f[v])
    if kind == 'bool': return tok_num('true' if v else 'false')
    if kind == 'E': return tok_e(v)
    if kind == 'C': return tok_c(v)
    return tok_num(str(v))


def tok_t(t, fmt, force, fields=None):
    """model value of a table: the fields the printer prints, in print order. force = flatcc_json_printer_f_force_default.
    Scalars equal to their default are not stored by the parser, so they print only with force."""
    fs = []
    for name, kind in (fields or T_FIELDS):
        if name in SCALAR_DEFAULTS and kind != 'optint':
            d = SCALAR_DEFAULTS[name]
            if name in t and t[name] != d: fs.append(tok_field(name, scalar_tok(name, kind, t[name], fmt)))
            elif force: fs.append(tok_field(name, scalar_tok(name, kind, d, fmt)))
            continue
        if name not in t: continue
        v = t[name]
        if kind == 'optint': fs.append(tok_field(name, tok_num(str(v))))
        elif kind == 'string': fs.append(tok_field(name, ['S', hx(v)]))
        elif kind == 'b64': fs.append(tok_field(name, ['B', hx(base64.b64encode(v))]))
        elif kind == 'b64url': fs.append(tok_field(name, ['B', hx(base64.urlsafe_b64encode(v))]))
        elif kind == 'table': fs.append(tok_field(name, tok_t(v, fmt, force)))
        elif kind == 'table2': fs.append(tok_field(name, tok_t(v, fmt, force, T2_FIELDS)))
        elif kind == 'tablevec': fs.append(tok_field(name, tok_vec('s', [tok_t(x, fmt, force) for x in v])))
        elif kind == 'union':
            fs.append(['U', hx(name.encode())] + tok_utype(v[0]) + ['1'] + tok_member(v[0], v[1], fmt, force))
        elif kind == 'unionvec':
            fs.append(tok_field(name + '_type', tok_vec('n', [tok_utype(k) for k, _ in v])))
            fs.append(tok_field(name, tok_vec('s', [tok_member(k, x, fmt, force) for k, x in v])))
        elif kind == 'S': fs.append(tok_field(name, tok_s(v)))
        elif kind == 'Q': fs.append(tok_field(name, tok_q(v, fmt)))
        elif kind == 'Svec': fs.append(tok_field(name, tok_vec('n', [tok_s(x) for x in v])))
        elif kind == 'strvec': fs.append(tok_field(name, tok_vec('n', [['S', hx(x)] for x in v])))
        elif kind == 'intvec': fs.append(tok_field(name, tok_vec('n', [tok_num(str(x)) for x in v])))
        elif kind == 'doublevec': fs.append(tok_field(name, tok_vec('n', [tok_num(fmt.d[x]) for x in v])))
        elif kind == 'Evec': fs.append(tok_field(name, tok_vec('n', [tok_e(x) for x in v])))
        elif kind == 'Cvec': fs.append(tok_field(name, tok_vec('n', [tok_c(x) for x in v])))
        else: raise ValueError(kind)
    out = ['T', str(len(fs))]
    for f in fs: out += f
    return out


# ---------------------------------------------------------------- features (for attributing failures) and generators
def features(t, depth=1, acc=None):
    acc = acc if acc is not None else {'b64': 0, 'depth': 0, 'empty_tv': 0, 'uv_none': 0, 'uv': 0, 'tv': 0}
    acc['depth'] = max(acc['depth'], depth)
    for name, kind in T_FIELDS:
        if name not in t: continue
        v = t[name]
        if kind in ('b64', 'b64url'): acc['b64'] = max(acc['b64'], len(v))
        elif kind == 'table': features(v, depth + 1, acc)
        elif kind == 'tablevec':
            acc['tv'] = max(acc['tv'], len(v))
            acc['empty_tv'] = max(acc['empty_tv'], sum(1 for x in v if not x))
            for x in v: features(x, depth + 1, acc)
        elif kind == 'union':
            if v[0] == 'T': features(v[1], depth + 1, acc)
        elif kind == 'unionvec':
            acc['uv'] = max(acc['uv'], len(v))
            acc['uv_none'] = max(acc['uv_none'], sum(1 for k, _ in v if k == 'NONE'))
            for k, x in v:
                if k == 'T': features(x, depth + 1, acc)
    return acc


def chain(depth, inner=None, key='t'):
    t = dict(inner) if inner is not None else {'i': 1}
    for _ in range(depth): t = {key: t}
    return t


def gen_S(rng):
    return {'x': rng.choice([0, 1, -1, 2147483647, -2147483648, rng.randint(-10**6, 10**6)]),
            'y': [rng.choice([0, -32768, 32767, rng.randint(-999, 999)]) for _ in range(3)]}


def gen_Q(rng):
    return {'s': gen_S(rng), 'a': [gen_S(rng), gen_S(rng)], 'c': [rng.randint(0, 255) for _ in range(4)],
            'e': rng.choice([-3, 0, 1, 7, 5, -2147483648]), 'ea': [rng.choice([-3, 0, 1, 7, 99]) for _ in range(2)],
            'f': f32(rng.choice([0.0, 1.5, -0.1, 3.4028234663852886e38, 1.401298464324817e-45, rng.uniform(-1e6, 1e6)]))}


DOUBLES = [1.5, -0.1, 1e300, -1.7976931348623157e308, 5e-324, 2.2250738585072014e-308, 123456789.12345678,
           -1.2345678901234567e-200, 1e21, 1e-7, 0.3, 100.0, 1e22, 9007199254740993.0]


def gen_string(rng, n=None):
    n = rng.choice([0, 1, 2, 5, 17, 40, 63, 64, 65, 130]) if n is None else n
    alpha = [0x61, 0x62, 0x7a, 0x20, 0x41, 0x22, 0x5c, 0x0a, 0x09, 0x0d, 0x08, 0x0c, 0x01, 0x1f, 0x7f, 0x2f]
    mode = rng.choice(['plain', 'mixed', 'esc', 'utf8'])
    if mode == 'plain': return bytes(rng.choice(b'abcdefghijklmnopqrstuvwxyz0123456789 ') for _ in range(n))
    if mode == 'esc': return bytes(rng.choice([0x22, 0x5c, 0x0a, 0x01, 0x1f, 0x09]) for _ in range(n))
    if mode == 'utf8': return ('é中\U0001f600' * n).encode()[:max(0, n - n % 9)] + b'x' * (n % 9)
    return bytes(rng.choice(alpha) for _ in range(n))


def gen_T(rng, depth=0, budget=None):
    budget = budget if budget is not None else [rng.choice([6, 12, 25])]
    t = {}
    names = [n for n, _ in T_FIELDS]
    k = rng.randint(0, min(len(names), 7))
    for name in rng.sample(names, k):
        if budget[0] <= 0: break
        budget[0] -= 1
        kind = dict(T_FIELDS)[name]
        if kind == 'int':
            hi = {'u64': 2**64 - 1, LN: 32767}.get(name, 2**31 - 1); lo = {'u64': 1, LN: -32768}.get(name, -2**31)
            v = rng.choice([lo, hi, 1, rng.randint(lo, hi)])
            if v != 0: t[name] = v
        elif kind == 'optint': t[name] = rng.choice([0, -1, 2147483647, -2147483648])
        elif kind == 'double': t[name] = rng.choice(DOUBLES)
        elif kind == 'float': t[name] = f32(rng.choice([1.5, -0.1, 3.4028234663852886e38, 1e-45, 16777217.0]))
        elif kind == 'bool': t[name] = True
        elif kind == 'string': t[name] = gen_string(rng)
        elif kind in ('b64', 'b64url'): t[name] = bytes(rng.getrandbits(8) for _ in range(rng.choice([0, 1, 2, 3, 4, 10, 47, 48, 49, 100, 200])))
        elif kind == 'table' and depth < 4: t[name] = gen_T(rng, depth + 1, budget)
        elif kind == 'tablevec' and depth < 4: t[name] = [gen_T(rng, depth + 1, budget) if rng.random() < 0.6 else {} for _ in range(rng.choice([0, 1, 2, 5]))]
        elif kind == 'union' and depth < 4: t[name] = gen_member(rng, depth, budget, none=False)
        elif kind == 'unionvec' and depth < 4: t[name] = [gen_member(rng, depth, budget) for _ in range(rng.choice([0, 1, 3, 6]))]
        elif kind == 'S': t[name] = gen_S(rng)
        elif kind == 'Q': t[name] = gen_Q(rng)
        elif kind == 'Svec': t[name] = [gen_S(rng) for _ in range(rng.choice([0, 1, 3]))]
        elif kind == 'strvec': t[name] = [gen_string(rng) for _ in range(rng.choice([0, 1, 4]))]
        elif kind == 'intvec': t[name] = [rng.choice([0, -9223372036854775808, 9223372036854775807, rng.randint(-99, 99)]) for _ in range(rng.choice([0, 1, 7, 30]))]
        elif kind == 'doublevec': t[name] = [rng.choice(DOUBLES) for _ in range(rng.choice([0, 1, 5]))]
        elif kind == 'E':
            v = rng.choice([-3, 1, 7, 9, 5, 2147483647])
            t[name] = v
        elif kind == 'C':
            v = rng.choice([2, 3, 15, 4, 16, 255, 0, 9])
            if v != 1: t[name] = v
        elif kind == 'Evec': t[name] = [rng.choice([-3, 0, 1, 7, 42]) for _ in range(rng.choice([0, 2, 9]))]
        elif kind == 'Cvec': t[name] = [rng.choice([0, 1, 2, 5, 15, 128]) for _ in range(rng.choice([0, 2, 9]))]
    return t


def gen_member(rng, depth, budget, none=True):
    k = rng.choice(['T', 'S', 'str'] + (['NONE'] if none else []))
    if k == 'T': return ('T', gen_T(rng, depth + 1, budget))
    if k == 'S': return ('S', gen_S(rng))
    if k == 'str': return ('str', gen_string(rng, rng.choice([0, 3, 20])))
    return ('NONE', None)


# ---------------------------------------------------------------- records
def parse_c(rec):
    """C record ret:err:over:hang:ok:ntr:trh -> dict; 'S' = skipped"""
    if rec == 'S': return None
    a = rec.split(':')
    return {'ret': int(a[0]), 'err': int(a[1]), 'over': int(a[2]), 'hang': int(a[3]), 'ok': int(a[4]), 'ntr': int(a[5]), 'trh': int(a[6])}


def parse_m(rec):
    """model record ret:err:viol:term:obad:orcleft:ntr:trh or H"""
    if rec == 'H': return {'hang': 1}
    a = rec.split(':')
    return {'hang': 0, 'ret': int(a[0]), 'err': int(a[1]), 'viol': int(a[2]), 'term': int(a[3]), 'obad': int(a[4]),
            'orc_left': int(a[5]), 'ntr': int(a[6]), 'trh': int(a[7])}


def same(c, m):
    """agreement of one print between implementation and model on what the property speaks about: termination, return
    value (length), error flag, stores outside the buffer.  (Bytes and terminator are compared by the harness against the
    reference text, the reference text against the model text.)"""
    if c is None: return True
    if c['hang'] or m['hang']: return bool(c['hang']) == bool(m['hang'])
    return c['ret'] == m['ret'] and c['err'] == m['err'] and (c['over'] > 0) == bool(m['viol'])


def same_trace(c, m):
    """diagnostic only: same number of ctx->flush calls at the same p - pflush"""
    if c is None or c['hang'] or m['hang']: return True
    return c['ntr'] == m['ntr'] and c['trh'] == m['trh']


# ---------------------------------------------------------------- parallel runners
def run_parallel(fn, chunks):
    """fn(chunk) -> list of replies; chunks run in threads (each spawns one subprocess)"""
    out = [None] * len(chunks); errs = []

    def work(i):
        try: out[i] = fn(chunks[i])
        except Exception as e: errs.append(e)
    th = [threading.Thread(target=work, args=(i,)) for i in range(len(chunks))]
    for t in th: t.start()
    for t in th: t.join()
    if errs: raise errs[0]
    return out


def split_chunks(items, n):
    n = max(1, min(n, len(items)))
    return [items[i::n] for i in range(n)]


def _big_stack():
    import resource
    try:
        soft, hard = resource.getrlimit(resource.RLIMIT_STACK)
        want = 1 << 30
        if hard != resource.RLIM_INFINITY: want = min(want, hard)
        resource.setrlimit(resource.RLIMIT_STACK, (want, hard))
    except Exception:
        pass


def run_model(ctx, lines, timeout=1200):
    """like ctx.run_model('printer', ...) with a large stack (the extracted list functions are not tail recursive)"""
    exe = ctx.modelrun('printer')
    r = subprocess.run([exe], input='\n'.join(lines) + '\n', stdout=subprocess.PIPE, stderr=subprocess.PIPE, text=True,
                       timeout=timeout, preexec_fn=_big_stack)
    if r.returncode != 0: raise lib.CheckError('modelrun_printer failed rc=%s: %s' % (r.returncode, r.stderr[-2000:]))
    res = r.stdout.split('\n')
    if res and res[-1] == '': res.pop()
    if len(res) != len(lines): raise lib.CheckError('modelrun_printer: %d replies for %d requests' % (len(res), len(lines)))
    return res


def model_parallel(ctx, lines, nproc=14):
    """run model request lines on several modelrun_printer processes, replies in request order"""
    if not lines: return []
    idx = split_chunks(list(range(len(lines))), nproc)
    res = run_parallel(lambda ch: run_model(ctx, [lines[i] for i in ch]), idx)
    out = [None] * len(lines)
    for ch, rs in zip(idx, res):
        for i, r in zip(ch, rs): out[i] = r
    return out


def compile_theorems_directly(ctx, files, prop):
    """bin/setup has not yet registered this area's files in coq/Makefile: compile them with coqc in dependency
    order (only what is out of date), then Print Assumptions for every theorem of the Properties file."""
    import re, fcntl, time
    coq = lib.COQ
    lock = open(os.path.join(coq, '.lock'), 'w'); fcntl.flock(lock, fcntl.LOCK_EX)
    try:
        newest = 0.0
        failed = None
        for f in files:
            v = os.path.join(coq, f); vo = v + 'o'
            newest = max(newest, os.path.getmtime(v))
            if failed and not f.startswith('Extract/'): continue
            if not os.path.exists(vo) or os.path.getmtime(vo) < newest:
                cmd = ['coqc', '-Q', coq, 'Flatcc', v]
                ctx.checker_cmds.append('coqc -Q coq Flatcc coq/' + f)
                rc, out = lib.sh(cmd, timeout=1500, cwd=coq)
                if rc != 0:
                    if os.path.exists(vo): os.remove(vo)
                    m = re.findall(r'File "([^"]+)", line (\d+)', out)
                    failed = {'files': sorted(set('%s:%s' % x for x in m)), 'log_tail': out[-3000:]}
                    continue
                newest = max(newest, os.path.getmtime(vo))
            else:
                newest = max(newest, os.path.getmtime(vo))
        if failed:
            ctx.obligations += len(ctx.theorem_names(prop + '.v'))
            ctx.broken = failed
            return False
    finally:
        fcntl.flock(lock, fcntl.LOCK_UN); lock.close()
    names = ctx.theorem_names(prop + '.v')
    ctx.obligations += len(names)
    v = os.path.join(ctx.bdir, 'assum_%s.v' % prop)
    with open(v, 'w') as f:
        f.write('From Flatcc.Properties Require Import %s.\n' % prop)
        for n in names: f.write('Goal True. idtac "@@ %s". exact I. Qed.\nPrint Assumptions %s.\n' % (n, n))
    rc, o = lib.sh(['coqc', '-Q', coq, 'Flatcc', v], timeout=300, cwd=ctx.bdir)
    if rc != 0:
        ctx.broken = {'files': [], 'log_tail': o[-3000:]}
        return False
    parts = re.split(r'@@ (\S+)\n', o)
    got = {parts[i]: ' '.join(parts[i + 1].split()) for i in range(1, len(parts) - 1, 2)}
    for n in names:
        ctx.theorems.append({'theorem': n, 'assumptions': got.get(n, '?')})
        if n in got: ctx.discharged += 1
    ctx.checker_cmds.append('coqc -Q coq Flatcc build/%s/assum_%s.v  (Print Assumptions for every theorem)' % (ctx.pid, prop))
    return all('Closed under the global context' in got.get(n, '') for n in names)
