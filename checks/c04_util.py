"""Shared helpers for checks/c04.py and checks/c05.py (JSON area).

* python description of gen/c04_schema.fbs, random value trees, JSON rendering in many surface styles
* token-level mutation, truncation, scanner-primitive input generators
* build of harness/json_scan_diff.c / json_rt.c with ASan in recover mode (one report per request line, no restart)
"""
import os, re, struct, base64, json
from . import lib

ROOT = lib.ROOT

# ---------------------------------------------------------------------------------------------- schema
INT_RANGES = {'byte': (-128, 127), 'ubyte': (0, 255), 'short': (-32768, 32767), 'ushort': (0, 65535),
              'int': (-2 ** 31, 2 ** 31 - 1), 'uint': (0, 2 ** 32 - 1), 'long': (-2 ** 63, 2 ** 63 - 1), 'ulong': (0, 2 ** 64 - 1)}
ENUMS = {'Color': {'base': 'byte', 'syms': {'Red': 1, 'Green': 2, 'Blue': 7}, 'flags': False},
         'Bits': {'base': 'ushort', 'syms': {'A': 1, 'B': 2, 'C': 4, 'H': 32768}, 'flags': True},
         'Neg': {'base': 'byte', 'syms': {'Min': -128, 'Zero': 0, 'Max': 127}, 'flags': False},
         'Full': {'base': 'ubyte', 'syms': {'F%d' % i: 1 << i for i in range(8)}, 'flags': True}}
STRUCTS = {
    'Pt': [('x', 'short'), ('y', 'short')],
    'Big': [('l', 'long'), ('u', 'ulong')],
    'Dp1': [('b', 'ubyte'), ('c', 'uint')], 'Dp2': [('a', 'ubyte'), ('c', 'uint')], 'Dp3': [('a', 'ubyte'), ('b', 'ushort')],
    'S1': [('a', 'ubyte')], 'S2': [('a', 'ubyte'), ('b', 'ubyte')], 'S2s': [('a', 'ushort')], 'S3': [('a', 'ubyte'), ('b', 'ubyte'), ('c', 'ubyte')],
    'Point': [('x', 'int'), ('y', 'int')],
    'Tri': [('a', 'int'), ('pts', ('arr', 'Point', 3)), ('tail', 'int'), ('id', 'short')],
    'Poly': [('pts', ('arr', 'Point', 40)), ('tail', 'int'), ('id', 'short')],
    'Lim': [('b', 'byte'), ('s', 'short'), ('i', 'int'), ('l', 'long'), ('ab', ('arr', 'byte', 2)), ('as', ('arr', 'short', 2)), ('ai', ('arr', 'int', 2)),
            ('al', ('arr', 'long', 2)), ('e', 'Neg'), ('ae', ('arr', 'Neg', 2))],
    'Fix': [('a', ('arr', 'int', 3)), ('name', ('chararr', 6)), ('p', ('arr', 'Pt', 2)), ('e', ('arr', 'Color', 2)),
            ('d', 'double'), ('u', 'ubyte')],
}
# (name, type, default)  default None = no scalar default (offset field)
TABLES = {
    'Leaf': [('n', 'long', 0), ('s', 'string', None), ('c', 'Color', 2)],
    'Other': [('v', ('vec', 'ushort'), None), ('f', 'float', 1.5)],
    'Rec': [('r', 'Rec', None), ('n', 'int', 0), ('k', ('vec', 'Rec'), None)],
    'Node': [('name', 'string', None), ('kids', ('uvec', 'Tree'), None), ('single', ('union', 'Tree'), None), ('n', 'int', 0)],
    'Req': [('a', 'string', None), ('b', ('vec', 'int'), None), ('c', 'Leaf', None), ('d', 'int', 0)],
    'Nums': [('l', 'long', 0), ('u', 'ulong', 0), ('vl', ('vec', 'long'), None), ('vu', ('vec', 'ulong'), None), ('big', 'Big', None),
             ('vbig', ('vec', 'Big'), None), ('i', 'int', 0), ('w', 'uint', 0), ('b8', 'byte', 0), ('s16', 'short', 0), ('vb8', ('vec', 'byte'), None),
             ('vs16', ('vec', 'short'), None), ('vi32', ('vec', 'int'), None), ('lim', 'Lim', None), ('vlim', ('vec', 'Lim'), None), ('e', 'Neg', 0),
             ('ve', ('vec', 'Neg'), None), ('full', 'Full', 0), ('vfull', ('vec', 'Full'), None), ('d', 'double', 0.0), ('f', 'float', 0.0),
             ('vd', ('vec', 'double'), None), ('vf', ('vec', 'float'), None)],
    'Geo': [('poly', 'Poly', None), ('tri', 'Tri', None), ('vtri', ('vec', 'Tri'), None), ('n', 'int', 0)],
    'DepFirst': [('u', ('union', 'Any'), None), ('v', ('uvec', 'Any'), None), ('n', 'int', 0)],
    'DepMid': [('u', ('union', 'Any'), None), ('v', ('uvec', 'Any'), None), ('w', ('union', 'Any'), None), ('s', 'string', None)],
    'DepLast': [('u', ('union', 'Any'), None), ('v', ('uvec', 'Any'), None), ('w', ('union', 'Any'), None)],
    'DepOnly': [('n', 'int', 0), ('s', 'string', None)],
    'Tiny': [('n1', ('nested', 'S1'), None), ('n2', ('nested', 'S2'), None), ('n2s', ('nested', 'S2s'), None), ('n3', ('nested', 'S3'), None),
             ('n4', ('nested', 'Pt'), None), ('n8', ('nested', 'Point'), None), ('s1', 'S1', None), ('s3', 'S3', None), ('k', 'int', 0)],
    'Item': [('payload', ('nested', 'Sub'), None), ('id', 'int', 0)],
    'Twin': [('a', ('nested', 'Sub'), None), ('b', ('nested', 'Sub'), None), ('items', ('vec', 'Item'), None), ('n', 'int', 0)],
    'DpT': [('d1', 'Dp1', None), ('d2', 'Dp2', None), ('d3', 'Dp3', None), ('v1', ('vec', 'Dp1'), None), ('n', 'int', 0)],
    'Multi': [('xs', ('vec', 'DepMid'), None), ('a', 'DepMid', None), ('b', 'DepMid', None), ('ys', ('vec', 'DepLast'), None)],
    'Opt': [('i', 'int', None), ('b', 'bool', None), ('u', 'ubyte', None), ('e', 'Color', None), ('l', 'long', None), ('f', 'float', None), ('d', 'double', None), ('n', 'int', 0)],
    'Sub': [('id', 'uint', 0), ('tag', 'string', None), ('pt', 'Pt', None)],
    'Root': [('b', 'bool', False), ('i8', 'byte', -3), ('u8', 'ubyte', 0), ('i16', 'short', 0), ('u16', 'ushort', 500),
             ('i32', 'int', 0), ('u32', 'uint', 0), ('i64', 'long', 0), ('u64', 'ulong', 0), ('f32', 'float', 0.0),
             ('f64', 'double', 2.5), ('col', 'Color', 7), ('bits', 'Bits', 0), ('name', 'string', None), ('fix', 'Fix', None),
             ('pt', 'Pt', None), ('leaf', 'Leaf', None), ('any', ('union', 'Any'), None), ('anys', ('uvec', 'Any'), None),
             ('vi', ('vec', 'int'), None), ('vb', ('vec', 'bool'), None), ('vs', ('vec', 'string'), None),
             ('vt', ('vec', 'Leaf'), None), ('vp', ('vec', 'Pt'), None), ('vc', ('vec', 'Color'), None),
             ('nest', ('nested', 'Sub'), None), ('nest_s', ('nested', 'Fix'), None), ('raw', ('vec', 'ubyte'), None),
             ('b64', ('b64', False), None), ('b64u', ('b64', True), None), ('nest64', ('nested64', 'Sub'), None),
             ('other', 'Other', None), ('any2', ('union', 'Any'), None), ('vfix', ('vec', 'Fix'), None), ('rec', 'Rec', None)],
}
REQUIRED = {('Sub', 'tag'), ('Req', 'a'), ('Req', 'b'), ('Req', 'c')}
UNIONS = {'Any': [('Leaf', 'Leaf'), ('Other', 'Other'), ('Pt', 'Pt'), ('Str', 'string')],
          'Tree': [('Node', 'Node'), ('Leaf', 'Leaf'), ('Other', 'Other')]}   # code = index + 1
ROOTS = ['Root', 'Leaf', 'Other', 'Sub', 'Rec', 'Node', 'Req', 'Nums', 'Geo', 'DepFirst', 'DepMid', 'DepLast', 'DepOnly', 'Multi', 'Opt', 'Tiny', 'Twin', 'DpT', 'Dp1', 'Pt', 'Fix', 'Tri', 'Poly', 'S1', 'S2', 'S2s', 'S3']

# powers of ten and of two with their neighbours: digit-count boundaries of the integer printers
_GRID = sorted(set([10 ** k + d for k in range(1, 20) for d in (-1, 0, 1)] + [2 ** k + d for k in (31, 32, 33, 63) for d in (-1, 0, 1)] +
                   [4294967296, 5000000000, 7123456789, 9999999999, 10000000000, 4294967295, 999999999, 1000000000, 99999999999]))
BOUNDARY_INTS = lambda lo, hi: [lo, hi, 0, 1, -1 if lo < 0 else 1, lo + 1, hi - 1, 127, 128, 255, 256, 65535, 65536] + \
    [x for x in _GRID if lo <= x <= hi] + [-x for x in _GRID if lo <= -x]


def is_scalar(t):
    return isinstance(t, str) and (t in INT_RANGES or t in ('bool', 'float', 'double') or t in ENUMS)


def f32(v):
    return struct.unpack('<f', struct.pack('<f', v))[0]


def small_decimal(r, maxdigits):
    """m.mmm x 10^-E with 2..maxdigits significant digits and E in 1..22 (also a few positive exponents): magnitudes 1e-22 .. 1e-1 whose
    shortest decimal form is scientific with a long mantissa"""
    nd = r.randint(2, maxdigits)
    m = r.randint(10 ** (nd - 1), 10 ** nd - 1)
    e = r.choice(list(range(1, 23)) * 3 + [-3, -10, 0, 23, 30])
    v = float('%de%d' % (m, -(nd - 1) - e))
    return -v if r.random() < 0.2 else v


# ---------------------------------------------------------------------------------------------- value trees
class Gen:
    """Random value trees for the schema. bytes for strings; dict for tables (present fields) and structs (all fields)."""

    def __init__(self, rng, max_depth=3, text='mixed'):
        self.rng, self.max_depth, self.text = rng, max_depth, text

    def string(self, maxlen=12):
        r = self.rng
        n = r.choice([0, 1, 2, 3, 5, 8, r.randint(0, maxlen)])
        if self.text == 'utf8':
            pool = ['a', 'Z', '0', ' ', '"', '\\', '/', '\n', '\t', '\x00', '\x1f', '\x7f', '\u00e9', '\u20ac', '\U0001f600', '\u07ff', '\u0800', '\uffff']
            return ''.join(r.choice(pool) for _ in range(n)).encode('utf-8')
        pool = [0, 1, 8, 9, 10, 12, 13, 0x1f, 0x20, 0x22, 0x5c, 0x2f, 0x41, 0x7a, 0x7f, 0x80, 0xc3, 0xa9, 0xff, 0xfe, 0x30, 0x7b, 0x7d, 0x5b, 0x5d, 0x2c, 0x3a]
        return bytes(r.choice(pool) if r.random() < 0.5 else r.randint(0, 255) for _ in range(n))

    def scalar(self, t):
        r = self.rng
        if t == 'bool': return r.random() < 0.5
        if t in INT_RANGES:
            lo, hi = INT_RANGES[t]
            if r.random() < 0.3: return r.choice([lo, lo + 1, hi, hi - 1, 0, -1 if lo < 0 else 1])
            c = [x for x in BOUNDARY_INTS(lo, hi) if lo <= x <= hi]
            return r.choice(c) if r.random() < 0.6 else r.randint(lo, hi)
        if t == 'float':
            if r.random() < 0.35: return f32(small_decimal(r, 9))
            return r.choice([0.0, 1.5, -1.5, 0.25, 3.0, -0.0, 1024.0, 0.0625, 16777216.0, -2.5, 1e10, 0.5])
        if t == 'double':
            if r.random() < 0.35: return small_decimal(r, 17)
            return r.choice([0.0, 2.5, -2.5, 0.1, 1e100, -1e-100, 3.141592653589793, 1.7976931348623157e308, 5e-324, 123456789.125, -0.0,
                             r.uniform(-1e6, 1e6), r.random()])
        e = ENUMS[t]
        lo, hi = INT_RANGES[e['base']]
        if e['flags']:
            v = r.choice([0, 0, 1, 2, 3, 4, 7, 32768, 32769, 8, 65535, 255, 128, r.randint(0, 65535)]) if r.random() < 0.8 else r.choice(list(e['syms'].values()))
            return v & hi
        return r.choice(list(e['syms'].values())) if r.random() < 0.85 else r.choice([0, 3, -1, 127, -128])

    def struct(self, name):
        out = {}
        for f, t in STRUCTS[name]:
            out[f] = self.sfield(t)
        return out

    def sfield(self, t):
        r = self.rng
        if isinstance(t, tuple):
            if t[0] == 'arr': return [self.sfield(t[1]) for _ in range(t[2])]
            if t[0] == 'chararr':
                n = r.randint(0, t[1])
                s = self.string(t[1])[:n]
                if r.random() < 0.3:
                    # full array whose LAST byte needs a JSON escape
                    s = (bytes(r.choice(b'abcXYZ019 /') for _ in range(t[1])))[:t[1] - 1] + bytes([r.choice([10, 9, 13, 8, 12, 0x22, 0x5c, 1, 0x1f])])
                if self.text == 'utf8':
                    # keep it valid UTF-8 after truncation
                    while True:
                        try: s.decode('utf-8'); break
                        except UnicodeDecodeError: s = s[:-1]
                return s.ljust(t[1], b'\0')
        if t in STRUCTS: return self.struct(t)
        return self.scalar(t)

    def union(self, uname, depth):
        r = self.rng
        m, t = r.choice(UNIONS[uname])
        return (m, self.value(t, depth + 1))

    def value(self, t, depth):
        r = self.rng
        if isinstance(t, tuple):
            k = t[0]
            if k == 'vec':
                n = r.choice([0, 1, 2, 3, r.randint(0, 6)]) if depth < self.max_depth else r.choice([0, 1])
                if t[1] == 'Rec' and depth >= self.max_depth: n = 0
                return [self.value(t[1], depth + 1) for _ in range(n)]
            if k == 'union': return self.union(t[1], depth)
            if k == 'uvec': return [self.union(t[1], depth) for _ in range(r.choice([0, 1, 2, 3]))]
            if k in ('nested', 'nested64'): return self.value(t[1], depth + 1)
            if k == 'b64': return bytes(r.randint(0, 255) for _ in range(r.choice([0, 1, 2, 3, 4, 5, 6, 7, 9, 16, r.randint(0, 40)])))
        if t == 'string': return self.string()
        if t in STRUCTS: return self.struct(t)
        if t in TABLES: return self.table(t, depth)
        return self.scalar(t)

    def table(self, name, depth=0, p_present=None):
        r = self.rng
        out = {}
        pp = p_present if p_present is not None else r.choice([0.15, 0.4, 0.7, 1.0])
        for f, t, d in TABLES[name]:
            req = (name, f) in REQUIRED
            if not req and r.random() > pp: continue
            if t in TABLES or (isinstance(t, tuple) and t[0] in ('vec', 'uvec', 'union', 'nested', 'nested64')):
                if depth >= self.max_depth and not req:
                    if not (isinstance(t, tuple) and t[0] == 'vec' and is_scalar(t[1])): continue
            out[f] = self.value(t, depth)
        return out

    def root(self, name):
        return self.struct(name) if name in STRUCTS else self.table(name, 0)


# ---------------------------------------------------------------------------------------------- JSON rendering
class Style:
    def __init__(self, rng, strict=False):
        r = rng
        self.r = r
        self.strict = strict
        self.quote_keys = True if strict else r.random() < 0.7
        self.enum_mode = 'sym' if strict else r.choice(['sym', 'num', 'sym', 'bare'])
        self.space = r.choice(['', '', ' ', '\n', 'wide', 'mix'])
        self.union_order = r.choice(['type_first', 'value_first', 'split'])
        self.trailing_comma = (not strict) and r.random() < 0.15
        self.shuffle = r.random() < 0.5
        self.escape_mode = 'std' if strict else r.choice(['std', 'mixed', 'x'])
        self.nested_bytes = {}      # filled by the caller: id(value) -> bytes, render that nested buffer as [n, n, ...]
        self.omit_struct_fields = (not strict) and r.random() < 0.2

    def sp(self):
        s = self.space
        if s == 'mix': s = self.r.choice(['', ' ', '  ', '\n', '\t', '\r\n', ' \n  '])
        if s == 'wide': s = ' ' * self.r.choice([1, 2, 3, 15, 16, 17, 33])
        return s.encode()


def esc_string(bs, st):
    out = bytearray(b'"')
    for c in bs:
        mode = st.escape_mode
        if mode == 'mixed': mode = st.r.choice(['std', 'std', 'u', 'x', 'short'])
        short = {0x22: b'\\"', 0x5c: b'\\\\', 0x08: b'\\b', 0x0c: b'\\f', 0x0a: b'\\n', 0x0d: b'\\r', 0x09: b'\\t', 0x2f: b'\\/'}
        if c < 0x20 or c in (0x22, 0x5c):
            if c in short and mode in ('std', 'short'): out += short[c]
            elif mode == 'x': out += b'\\x%02x' % c
            else: out += (b'\\u00%02x' % c) if st.r.random() < 0.5 or st.strict else (b'\\u00%02X' % c)
        elif c < 0x80 and mode == 'u': out += b'\\u00%02x' % c
        elif mode == 'x' and st.r.random() < 0.3: out += b'\\x%02X' % c
        elif c == 0x2f and mode == 'short': out += b'\\/'
        else: out.append(c)
    out += b'"'
    return bytes(out)


def fmt_float(v, t):
    if t == 'float':
        # values used for float fields are exactly representable
        s = repr(float(v))
    else:
        s = repr(float(v))
    if s.endswith('.0'): s = s[:-2] if True else s
    if s == '-0': s = '-0.0'
    return s.encode()


def render_scalar(v, t, st):
    if t == 'bool': return b'true' if v else b'false'
    if t in INT_RANGES: return str(int(v)).encode()
    if t in ('float', 'double'): return fmt_float(v, t)
    e = ENUMS[t]
    mode = st.enum_mode
    inv = {val: k for k, val in e['syms'].items()}
    if mode != 'num':
        if e['flags']:
            names = [k for k, val in e['syms'].items() if v & val]
            if v != 0 and sum(e['syms'][k] for k in names) == v:
                if len(names) == 1 and mode == 'bare' and not st.quote_keys: return names[0].encode()
                return b'"' + b' '.join(n.encode() for n in names) + b'"'
        elif v in inv:
            if mode == 'bare' and not st.quote_keys: return inv[v].encode()
            return b'"' + inv[v].encode() + b'"'
    return str(int(v)).encode()


def render_struct(name, v, st):
    parts = []
    for f, t in STRUCTS[name]:
        if st.omit_struct_fields and st.r.random() < 0.3: continue
        parts.append((f, render_sfield(t, v[f], st)))
    return render_obj(parts, st)


def render_sfield(t, v, st):
    if isinstance(t, tuple):
        if t[0] == 'arr': return render_arr([render_sfield(t[1], x, st) for x in v], st)
        if t[0] == 'chararr': return esc_string(v.rstrip(b'\0'), st)
    if t in STRUCTS: return render_struct(t, v, st)
    return render_scalar(v, t, st)


def key(f, st):
    return b'"' + f.encode() + b'"' if st.quote_keys else f.encode()


def render_obj(parts, st):
    out = bytearray(b'{')
    for i, (f, val) in enumerate(parts):
        out += st.sp() + key(f, st) + st.sp() + b':' + st.sp() + val + st.sp()
        if i + 1 < len(parts) or st.trailing_comma: out += b','
    out += st.sp() + b'}'
    return bytes(out)


def render_arr(vals, st):
    out = bytearray(b'[')
    for i, val in enumerate(vals):
        out += st.sp() + val + st.sp()
        if i + 1 < len(vals) or (st.trailing_comma and vals): out += b','
    out += st.sp() + b']'
    return bytes(out)


def union_type_text(uname, m, st):
    if st.enum_mode == 'num':
        return str([x for x, _ in UNIONS[uname]].index(m) + 1).encode()
    if st.enum_mode == 'bare' and not st.quote_keys: return m.encode()
    return b'"' + m.encode() + b'"'


def render_value(t, v, st):
    if isinstance(t, tuple):
        k = t[0]
        if k == 'vec': return render_arr([render_value(t[1], x, st) for x in v], st)
        if k == 'nested':
            nb = st.nested_bytes.get(id(v))
            if nb is not None: return render_arr([str(c).encode() for c in nb], st)
            return render_value(t[1], v, st)
        if k == 'nested64':
            # nested_flatbuffer + base64: the parser accepts base64 text only
            nb = st.nested_bytes.get(id(v))
            if nb is None: raise ValueError('nest64 needs buffer bytes')
            return b'"' + base64.b64encode(nb) + b'"'
        if k == 'b64':
            enc = base64.urlsafe_b64encode(v) if t[1] else base64.b64encode(v)
            if not st.strict and st.r.random() < 0.3: enc = enc.rstrip(b'=')
            return b'"' + enc + b'"'
        raise ValueError(t)
    if t == 'string': return esc_string(v, st)
    if t in STRUCTS: return render_struct(t, v, st)
    if t in TABLES: return render_table(t, v, st)
    return render_scalar(v, t, st)


def render_table(name, v, st):
    parts = []
    late = []
    for f, t, d in TABLES[name]:
        if f not in v: continue
        val = v[f]
        if isinstance(t, tuple) and t[0] == 'union':
            m, uv = val
            ut = dict(UNIONS[t[1]])[m]
            tp = (f + '_type', union_type_text(t[1], m, st)); vp = (f, render_value(ut, uv, st))
            if st.union_order == 'type_first': parts += [tp, vp]
            elif st.union_order == 'value_first': parts += [vp, tp]
            else: parts.append(vp); late.append(tp)
        elif isinstance(t, tuple) and t[0] == 'uvec':
            tp = (f + '_type', render_arr([union_type_text(t[1], m, st) for m, _ in val], st))
            vp = (f, render_arr([render_value(dict(UNIONS[t[1]])[m], uv, st) for m, uv in val], st))
            if st.union_order == 'type_first': parts += [tp, vp]
            elif st.union_order == 'value_first': parts += [vp, tp]
            else: parts.append(vp); late.append(tp)
        else:
            parts.append((f, render_value(t, val, st)))
    parts += late
    if st.shuffle and st.union_order == 'split':
        st.r.shuffle(parts)
    return render_obj(parts, st)


def render_root(name, v, st):
    return render_struct(name, v, st) if name in STRUCTS else render_table(name, v, st)


# ---------------------------------------------------------------------------------------------- mutation
TOKEN_RE = re.compile(rb'"(?:\\.|[^"\\])*"|-?\d+(?:\.\d+)?(?:[eE][-+]?\d+)?|[A-Za-z_][A-Za-z_0-9.]*|\s+|.', re.S)
NASTY_TOKENS = [b'{', b'}', b'[', b']', b',', b':', b'"', b'\\', b'null', b'true', b'false', b'1.', b'-', b'1e', b'1e+', b'0.', b'00', b'.5',
                b'1e999', b'-1e999', b'18446744073709551616', b'-9223372036854775809', b'99999999999999999999', b'"\\u"', b'"\\ud800"', b'"\\ud800\\udc00"',
                b'"\\x"', b'"\\x4"', b'"\\q"', b'"\x01"', b'\x00', b'\xff', b' ', b'\r', b'\n', b'\t', b'\x0b', b'{"a":', b'[1,', b'{"zz":{"q":1}}', b'"A B"',
                b'Red', b'"Red Blue"', b'nan', b'inf', b'-inf', b'"QUJD"', b'"QQ="', b'"Q"', b'"!!"', b'1.5', b'-0', b'0x10', b'1E5', b'{}', b'[]', b'[[]]']


def tokens(bs):
    return TOKEN_RE.findall(bs)


def mutate(rng, bs):
    toks = tokens(bs)
    if not toks: return rng.choice(NASTY_TOKENS)
    n = rng.choice([1, 1, 1, 2, 3])
    for _ in range(n):
        i = rng.randrange(len(toks))
        op = rng.choice(['del', 'dup', 'swap', 'rep', 'ins', 'trunc_tok', 'byte'])
        if op == 'del': del toks[i]
        elif op == 'dup': toks.insert(i, toks[i])
        elif op == 'swap' and len(toks) > 1:
            j = rng.randrange(len(toks)); toks[i], toks[j] = toks[j], toks[i]
        elif op == 'rep': toks[i] = rng.choice(NASTY_TOKENS)
        elif op == 'ins': toks.insert(i, rng.choice(NASTY_TOKENS))
        elif op == 'trunc_tok' and len(toks[i]) > 1: toks[i] = toks[i][:rng.randrange(1, len(toks[i]))]
        else:
            t = bytearray(toks[i]);
            if t: t[rng.randrange(len(t))] = rng.choice([0, 0x1f, 0x20, 0x22, 0x5c, 0x7f, 0x80, 0xff, rng.randint(0, 255)])
            toks[i] = bytes(t)
        if not toks: toks = [rng.choice(NASTY_TOKENS)]
    return b''.join(toks)


# ---------------------------------------------------------------------------------------------- harness build
SAN_RECOVER = ['-fsanitize=address,undefined', '-fno-sanitize=nonnull-attribute,alignment', '-fsanitize-recover=all', '-fno-omit-frame-pointer']
ASAN_ENV = {'ASAN_OPTIONS': 'detect_leaks=0:halt_on_error=0:allocator_may_return_null=1:suppress_equal_pcs=0:detect_stack_use_after_return=0',
            'UBSAN_OPTIONS': 'print_stacktrace=1'}


def gen_schema(ctx, san=False):
    gdir = os.path.join(ctx.bdir, 'gen')
    # the struct-root schema goes to its own directory: its generated parser header may not even compile (see checks/c04.py)
    ctx.gen(os.path.join(ROOT, 'gen', 'c04_sroot.fbs'), os.path.join(ctx.bdir, 'gen_sroot'), opts=('-a', '--json'), san=san)
    rc, out = ctx.gen(os.path.join(ROOT, 'gen', 'c04_schema.fbs'), gdir, opts=('-a', '--json'), san=san)
    if rc != 0: raise lib.BuildFailure('flatcc -a --json c04_schema.fbs', out)
    return gdir


def build_harness(ctx, src, out, gdir, rt=('builder.c', 'emitter.c', 'refmap.c', 'verifier.c'), defs=('-DNDEBUG',)):
    """Compile one of this area's harnesses together with the runtime sources it does not #include, ASan in recover mode."""
    d = os.path.join(ctx.bdir, 'obj_' + out); os.makedirs(d, exist_ok=True)
    base = ['clang', '-std=gnu11', '-O1', '-g', '-w'] + lib.HOOK_DEFS + list(defs) + lib.INCS + \
           ['-I%s/src/runtime' % lib.REPO, '-I' + gdir, '-I' + os.path.join(ROOT, 'harness')] + SAN_RECOVER
    jobs, objs = [], []
    for s in [os.path.join(ROOT, 'harness', src)] + [os.path.join(lib.REPO, 'src/runtime', x) for x in rt]:
        o = os.path.join(d, os.path.basename(s)[:-2] + '.o')
        jobs.append(base + ['-c', s, '-o', o]); objs.append(o)
    lib.par_compile(jobs)
    exe = os.path.join(ctx.bdir, out)
    rc, o = lib.sh(['clang'] + SAN_RECOVER + objs + ['-o', exe, '-lm'])
    if rc != 0: raise lib.BuildFailure('link ' + out, o)
    return lib.Harness(exe, env=ASAN_ENV)


def run_resilient(h, lines, timeout=900, chunk=4000):
    """Feed request lines in chunks; when the process dies on a line (fatal sanitizer report such as a stack overflow,
    abort, alarm) that line gets the reply 'CRASH <last report on stderr>' (or HANG) and the rest continues in a new process."""
    out = []
    for k in range(0, len(lines), chunk):
        part = lines[k:k + chunk]
        start, guard = 0, 0
        while start < len(part):
            rc, res, err = h.run(part[start:], timeout=timeout)
            res = res[:len(part) - start]
            out.extend(res)
            done = start + len(res)
            if done >= len(part): break
            if res and res[-1] == 'HANG' and rc == 98:
                start = done; continue       # the HANG line is the reply of the request that timed out
            if rc == 99 and res:
                # the harness answered the request and then left on purpose (ASan reported a WRITE: memory may be damaged): go on with the next line
                guard += 1
                if guard > 200:
                    out.extend(['CRASH (too many restarts)'] * (len(part) - done)); break
                start = done; continue
            tail = err[-6000:]
            i = tail.rfind('ERROR: AddressSanitizer')
            if i < 0: i = tail.rfind('runtime error')
            msg = ' '.join(tail[i:].split('\n')[:8]) if i >= 0 else ' '.join(tail.strip().split('\n')[-6:])
            out.append('CRASH rc=%s %s' % (rc, msg[:1200]))
            start = done + 1
            guard += 1
            if guard > 50:
                out.extend(['CRASH (too many crashes)'] * (len(part) - start)); break
    return out[:len(lines)]


def asan_key(reply):
    """Stable key for a sanitizer reply line of the harness ('ASAN kind access @frame0 <frame1 <frame2')."""
    m = re.search(r'@(\S+)', reply)
    f0 = m.group(1) if m else '?'
    if f0 == '__flatcc_json_parser_number': return 'generic-number-dot-overread'
    if f0 == 'flatcc_json_parser_generic_json': return 'generic-after-colon-overread'
    if 'grisu3_parse_double' in reply: return 'float-at-end-overread'
    return 'asan:' + f0


def gen_json_consts(ctx):
    """T1 for this area: translators/json_probe.c -> coq/Generated/JsonConsts.v ; returns dict."""
    exe = os.path.join(ctx.bdir, 'json_probe')
    ctx.cc([os.path.join(ROOT, 'translators', 'json_probe.c')] + [os.path.join(lib.REPO, 'src/runtime', x) for x in ('builder.c', 'emitter.c', 'refmap.c')],
           exe, opt='-O1', incs=['-I%s/src/runtime' % lib.REPO])
    rc, out, err = lib.sh2([exe])
    if rc != 0: raise lib.CheckError('json_probe failed: ' + err)
    if ctx.write_generated('Generated/JsonConsts.v', out):
        ctx.log('Generated/JsonConsts.v changed: dependent theorems are re-checked')
    d = {}
    for m in re.finditer(r'Definition (\S+) : Z := (-?\d+)\.', out): d[m.group(1)] = int(m.group(2))
    return d


def split_ub(reply):
    """harness replies may carry a suffix ' UBSAN kind@file:line' (UBSan in recover mode): returns (reply, ub or None)"""
    k = reply.find(' UBSAN ')
    if k < 0: return reply, None
    return reply[:k], reply[k + 7:].strip()


# undefined behaviour that does not touch memory: reported in the evidence notes, not as a C04 violation
UB_BENIGN = ('shift-exponent', 'signed-integer-overflow', 'float-cast-overflow', 'shift-base', 'implicit', 'integer-divide-by-zero', 'float-divide-by-zero')


def check_theorems_and_model(ctx):
    """Re-check Properties_<pid>.vo and the extraction; rebuild modelrun_json when the extracted model is newer than the driver binary
    (Generated/JsonConsts.v carries a behaviour switch the model follows)."""
    ok = ctx.check_theorems(extra_targets=['Extract/Extract_json.vo'])
    ml = os.path.join(ROOT, 'ocaml', 'json', 'model.ml'); exe = os.path.join(ROOT, 'build', 'modelrun_json')
    if os.path.exists(ml) and (not os.path.exists(exe) or os.path.getmtime(ml) > os.path.getmtime(exe)):
        rc, out = lib.sh([os.path.join(ROOT, 'bin', 'build_modelrun'), 'json'], timeout=900)
        ctx.log('modelrun_json rebuilt: ' + out.strip()[-200:])
    return ok


EXPECTED_CFG = {'JCFG_allow_unquoted': 1, 'JCFG_allow_unquoted_list': 0, 'JCFG_allow_trailing_comma': 1, 'JCFG_wide_space': 0,
                'JCFG_unaligned_access': 1, 'JCFG_use_sse4_2': 0, 'JCFG_char_is_signed': 1}


def hx(bs):
    return bytes(bs).hex() if len(bs) else '-'


# ---------------------------------------------------------------------------------------------- a minimal reader for the Geo / Tri / Poly buffers
# (layout by the FlatBuffers struct rules; independent of flatcc's generated readers): used to check that members FOLLOWING an underfilled
# fixed length array of structs keep their values and that the padding elements read zero
_LAYOUT = {'Tri': {'size': 36, 'a': 0, 'pts': (4, 3), 'tail': 28, 'id': 32}, 'Poly': {'size': 328, 'pts': (0, 40), 'tail': 320, 'id': 324}}


def read_struct(buf, off, name):
    L = _LAYOUT[name]
    if off < 0 or off + L['size'] > len(buf): return None
    i32 = lambda o: struct.unpack_from('<i', buf, off + o)[0]
    out = {'tail': i32(L['tail']), 'id': struct.unpack_from('<h', buf, off + L['id'])[0]}
    if 'a' in L: out['a'] = i32(L['a'])
    po, n = L['pts']
    out['pts'] = [(i32(po + 8 * k), i32(po + 8 * k + 4)) for k in range(n)]
    return out


def read_geo(buf, with_size):
    """{'poly':..., 'tri':..., 'vtri':[...], 'n':...} of a finished Geo buffer (absent fields missing), or None when malformed"""
    try:
        base = 4 if with_size else 0
        pos = base + struct.unpack_from('<I', buf, base)[0]
        vt = pos - struct.unpack_from('<i', buf, pos)[0]
        vsize = struct.unpack_from('<H', buf, vt)[0]
        def fo(k):
            o = 4 + 2 * k
            return struct.unpack_from('<H', buf, vt + o)[0] if o + 2 <= vsize else 0
        out = {}
        if fo(0): out['poly'] = read_struct(buf, pos + fo(0), 'Poly')
        if fo(1): out['tri'] = read_struct(buf, pos + fo(1), 'Tri')
        if fo(2):
            v = pos + fo(2); v += struct.unpack_from('<I', buf, v)[0]
            n = struct.unpack_from('<I', buf, v)[0]
            out['vtri'] = [read_struct(buf, v + 4 + 36 * k, 'Tri') for k in range(n)]
        if fo(3): out['n'] = struct.unpack_from('<i', buf, pos + fo(3))[0]
        return out
    except struct.error:
        return None


def read_struct_root(buf, with_size, name):
    base = 4 if with_size else 0
    try:
        return read_struct(buf, base + struct.unpack_from('<I', buf, base)[0], name)
    except struct.error:
        return None
