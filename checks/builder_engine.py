"""Engine shared by checks/c02.py, c03.py, c15.py: builds the implementation side from /repo's current sources
(flatcc, generated code for the corpus, harness/build_script, one harness/buf_check per schema), generates build cases,
runs model and implementation on the same scripts and exposes the oracles (C verifiers, extracted Spec decoder,
generated-reader dump)."""
import os, re, concurrent.futures
from . import lib
from . import builder_util as bu


class Case:
    __slots__ = ('schema', 'root', 'node', 'gen', 'opts', 'klass', 'h', 'm', 'hrep', 'mrep', 'himpl', 'mimpl', 'nested_nodes')

    def __init__(self, schema, root, node, gen, opts, klass):
        self.schema, self.root, self.node, self.gen, self.opts, self.klass = schema, root, node, gen, opts, klass
        self.h, self.m = bu.harness_line(gen), bu.model_line(gen)
        self.hrep = self.mrep = None
        self.himpl = self.mimpl = None


def parse_reply(r):
    """OK refs=.. align=.. start=.. end=.. bytes=.. emits=.. -> dict (None when not OK)"""
    if r is None or not r.startswith('OK '): return None
    d = {}
    for t in r.split()[1:]:
        if '=' in t:
            k, v = t.split('=', 1); d[k] = v
        else:
            d.setdefault('flags', []).append(t)
    d['raw'] = bytes.fromhex(d['bytes']) if d.get('bytes', '-') != '-' else b''
    d['align'] = int(d['align'])
    return d


class Engine:
    def __init__(self, ctx):
        self.ctx = ctx
        self.corpus = bu.corpus()
        self.by_name = {s.name: s for s in self.corpus}
        self._build()

    # ------------------------------------------------------------------ implementation side
    def _build(self):
        ctx = self.ctx
        t0 = ctx.t0
        self.gdir = {}
        ctx.flatcc()
        for s in self.corpus:
            d = os.path.join(ctx.bdir, 'gen_' + s.name); os.makedirs(d, exist_ok=True)
            fbs = os.path.join(d, s.name + '.fbs'); open(fbs, 'w').write(s.fbs())
            # keep a copy of the corpus as plain .fbs for reference
            ref = os.path.join(lib.ROOT, 'gen', 'builder', s.name + '.fbs')
            try:
                if not os.path.exists(ref) or open(ref).read() != s.fbs():
                    os.makedirs(os.path.dirname(ref), exist_ok=True); open(ref, 'w').write(s.fbs())
            except OSError:
                pass
            rc, out = ctx.gen(fbs, d, opts=('-a',))
            if rc != 0:
                ctx.violation('schema-rejected:' + s.name, 'flatcc rejected corpus schema %s: %s' % (s.name, out[:300]), {'schema': s.fbs()})
                continue
            open(os.path.join(d, 'glue.h'), 'w').write(bu.gen_glue(s))
            self.gdir[s.name] = d
        objs = ctx.rt_objs(san=True, defs=['-DNDEBUG'])
        hdir = os.path.join(lib.ROOT, 'harness')
        jobs = {}
        with concurrent.futures.ThreadPoolExecutor(max_workers=8) as ex:
            jobs['build'] = ex.submit(ctx.cc, [os.path.join(hdir, 'build_script.c')] + objs, os.path.join(ctx.bdir, 'build_script'),
                                      san=True, defs=['-DNDEBUG'], incs=['-I' + hdir])
            for name, d in self.gdir.items():
                jobs[name] = ex.submit(ctx.cc, [os.path.join(hdir, 'buf_check.c')] + objs, os.path.join(d, 'buf_check'),
                                       san=True, defs=['-DNDEBUG'], incs=['-I' + hdir, '-I' + d])
        self.H = lib.Harness(jobs['build'].result())
        self.BC = {}
        for name in self.gdir:
            try:
                self.BC[name] = lib.Harness(jobs[name].result())
            except lib.BuildFailure as e:
                ctx.violation('generated-code-does-not-compile:' + name, 'code generated for corpus schema %s does not compile: %s' % (name, str(e)[-400:]),
                              {'schema': self.by_name[name].fbs()})
        self.thash = {}
        for name, h in self.BC.items():
            roots = bu.roots_of(self.by_name[name])
            rc, res, err = h.run(['thash %d' % i for i in range(len(roots))])
            self.thash[name] = {r: int(x) for r, x in zip(roots, res)}
        ctx.log('implementation side built (%d schemas)' % len(self.BC))

    # ------------------------------------------------------------------ case generation
    def toplevel_opts(self, rng, s, root):
        idents = [None, None, b'ABCD', b'\x01\x00\x00\x00', b'\xff\xfe\xfd\xfc']
        if s.ident: idents += [s.ident.encode()] * 2
        if root in self.thash.get(s.name, {}): idents.append(self.thash[s.name][root].to_bytes(4, 'little'))
        style = rng.choice(['se', 'se', 'se', 'c'])
        return {'clustering': rng.random() < 0.6, 'block_align': rng.choice([0, 0, 0, 1, 2, 4, 8, 16, 32, 64, 128, 256]),
                'ident': rng.choice(idents), 'with_size': rng.random() < 0.35, 'style': style,
                'early': style == 'se' and rng.random() < 0.3, 'align': 0}

    def make_case(self, rng, s, root=None, maxdepth=None, size=1.0, klass=None, opts=None, styles=True, nested_bias=False):
        root = root or s.root
        vg = bu.ValueGen(s, rng, maxdepth=maxdepth if maxdepth is not None else rng.choice([1, 2, 2, 3]), size=size)
        if root in s.tables:
            node = vg.table(root, 0)
        else:
            node = bu.Node('bytes', vg.inline(root), root)
        g = bu.ScriptGen(s, rng, styles=styles)
        o = dict(opts or self.toplevel_opts(rng, s, root))
        if o['style'] == 'c' and bu.has_nested(node):
            # flatcc_builder.h: create_buffer is not suitable as a container for buffers created with start/end_buffer
            o['style'] = 'se'
        g.toplevel(node, o)
        return Case(s, root, node, g, o, klass or ('table-root' if root in s.tables else 'struct-root'))

    # ------------------------------------------------------------------ running
    def run_builds(self, cases):
        ctx = self.ctx
        hres = lib.run_harness_resilient(self.H, [c.h for c in cases])
        mres = ctx.run_model('builder', [c.m for c in cases])
        for c, a, b in zip(cases, hres, mres):
            c.hrep, c.mrep = a, b
            c.himpl, c.mimpl = parse_reply(a), parse_reply(b)

    def verify_lines(self, s, root, ws, stored_id, align, raw):
        """[(line, expected accept, label)] over every generated verify variant for this root"""
        ri = bu.roots_of(s).index(root)
        am = align if 0 < align < 256 else 0
        hexb = raw.hex() if raw else '-'
        sid = stored_id or b'\0\0\0\0'
        sidw = int.from_bytes(sid, 'little')
        th = self.thash[s.name][root]
        fileid = s.ident.encode() if s.ident else None
        out = []

        def add(mode, fid, thash, expect, label):
            out.append(('verify %d %d %d %s %d %d %s' % (ri, ws, mode, fid.hex() if fid else '-', thash, am, hexb), expect, label))
        add(1, None, 0, True, 'with_identifier(null)')
        if sidw and 0 not in sid: add(1, sid, 0, True, 'with_identifier(stored)')
        add(1, b'ZZZZ', 0, sid == b'ZZZZ', 'with_identifier(other)')
        add(0, None, 0, (fileid is None) or sid == fileid, 'as_root')
        add(2, None, 0, sidw == th, 'as_typed_root')
        add(3, None, 0, True, 'with_type_hash(0)')
        if sidw: add(3, None, sidw, True, 'with_type_hash(stored)')
        return out

    def dec_line(self, s, root, ws, depth, align, raw):
        return 'dec %s %s %d %d %d %s' % (s.descriptor(), s.root_desc(root), ws, depth, align, raw.hex() if raw else '-')

    def run_bc(self, name, lines):
        if not lines: return []
        return lib.run_harness_resilient(self.BC[name], lines)

    def run_bc_all(self, items):
        """items: [(schema name, line)] -> replies in order"""
        per = {}
        for i, (name, line) in enumerate(items): per.setdefault(name, []).append((i, line))
        out = [None] * len(items)
        with concurrent.futures.ThreadPoolExecutor(max_workers=8) as ex:
            futs = {name: ex.submit(self.run_bc, name, [l for _, l in lst]) for name, lst in per.items() if name in self.BC}
            for name, f in futs.items():
                for (i, _), r in zip(per[name], f.result()): out[i] = r
        return out

    # ------------------------------------------------------------------ classification helpers
    @staticmethod
    def crash_key(rep):
        m = re.search(r'#0 0x[0-9a-f]+ in (\w+)', rep) or re.search(r'in (\w+) ', rep)
        kind = 'asan'
        m2 = re.search(r'AddressSanitizer: ([\w-]+)', rep)
        if m2: kind = m2.group(1)
        elif 'runtime error' in rep: kind = 'ubsan'
        elif 'Assertion' in rep: kind = 'assert'
        return '%s:%s' % (kind, m.group(1) if m else 'unknown')
