"""Engine shared by checks/c02.py, c03.py, c15.py: builds the implementation side from /repo's current sources
(flatcc, generated code for the corpus, harness/build_script, one harness/buf_check per schema), generates build cases,
runs model and implementation on the same scripts and exposes the oracles (C verifiers, extracted Spec decoder,
generated-reader dump)."""
import os, re, concurrent.futures
from . import lib
from . import builder_util as bu


class Case:
    __slots__ = ('schema', 'root', 'node', 'gen', 'opts', 'klass', 'h', 'm', 'hrep', 'mrep', 'himpl', 'mimpl', 'nested_nodes')

    def __init__(self, schema, root, node, gen, opts, klass):
        self.schema, self.root, self.node, self.gen, self.opts, self.klass = schema, root, node, gen, opts, klass
        self.h, self.m = bu.harness_line(gen), bu.model_line(gen)
        self.hrep = self.mrep = None
        self.himpl = self.mimpl = None


def parse_reply(r):
    """OK refs=.. align=.. start=.. end=.. bytes=.. emits=.. -> dict (None when not OK)"""
    if r is None or not r.startswith('OK '): return None
    d = {}
    for t in r.split()[1:]:
        if '=' in t:
            k, v = t.split('=', 1); d[k] = v
        else:
            d.setdefault('flags', []).append(t)
    d['raw'] = bytes.fromhex(d['bytes']) if d.get('bytes', '-') != '-' else b''
    d['align'] = int(d['align'])
    return d


def mask_refs(r, opaque):
    """blank the references the implementation side cannot observe (calls of the generated api that do not return them)"""
    if r is None or not r.startswith('OK '): return r
    out = []
    for t in r.split(' '):
        if t.startswith('refs=') and t != 'refs=-':
            v = t[5:].split(',')
            t = 'refs=' + ','.join('x' if i in opaque else x for i, x in enumerate(v))
        out.append(t)
    return ' '.join(out)


class Engine:
    def __init__(self, ctx, with_gen_api=False):
        self.ctx = ctx
        self.with_gen_api = with_gen_api
        self.corpus = bu.corpus()
        self.by_name = {s.name: s for s in self.corpus}
        self._build()

    # ------------------------------------------------------------------ implementation side
    def _build(self):
        ctx = self.ctx
        t0 = ctx.t0
        self.gdir = {}
        self.corder = {}
        ctx.flatcc()
        for s in self.corpus:
            d = os.path.join(ctx.bdir, 'gen_' + s.name); os.makedirs(d, exist_ok=True)
            fbs = os.path.join(d, s.name + '.fbs'); open(fbs, 'w').write(s.fbs())
            # keep a copy of the corpus as plain .fbs for reference
            ref = os.path.join(lib.ROOT, 'gen', 'builder', s.name + '.fbs')
            try:
                if not os.path.exists(ref) or open(ref).read() != s.fbs():
                    os.makedirs(os.path.dirname(ref), exist_ok=True); open(ref, 'w').write(s.fbs())
            except OSError:
                pass
            rc, out = ctx.gen(fbs, d, opts=('-a',))
            if rc != 0:
                ctx.violation('schema-rejected:' + s.name, 'flatcc rejected corpus schema %s: %s' % (s.name, out[:300]), {'schema': s.fbs()})
                continue
            open(os.path.join(d, 'glue.h'), 'w').write(bu.gen_glue(s))
            self.gdir[s.name] = d
            try: self.corder[s.name] = bu.create_order(s, d)
            except Exception: self.corder[s.name] = {}
            open(os.path.join(d, 'glueb.h'), 'w').write(bu.gen_glue_build(s))
        objs = ctx.rt_objs(san=True, defs=['-DNDEBUG'])
        hdir = os.path.join(lib.ROOT, 'harness')
        jobs = {}
        with concurrent.futures.ThreadPoolExecutor(max_workers=8) as ex:
            jobs['build'] = ex.submit(ctx.cc, [os.path.join(hdir, 'build_script.c')] + objs, os.path.join(ctx.bdir, 'build_script'),
                                      san=True, defs=['-DNDEBUG'], incs=['-I' + hdir])
            for name, d in self.gdir.items():
                jobs[name] = ex.submit(ctx.cc, [os.path.join(hdir, 'buf_check.c')] + objs, os.path.join(d, 'buf_check'),
                                       san=True, defs=['-DNDEBUG'], incs=['-I' + hdir, '-I' + d])
                if self.with_gen_api is True or (self.with_gen_api and name in self.with_gen_api):     # True: every schema; a set: those schemas
                    # -fno-sanitize=alignment: the generated builder writes structs with force_align > 8 through pointers into the builder's
                    # data stack, which is only 8-aligned (reported once by the dedicated probe in checks/c03.py, key
                    # generated-builder-misaligned-struct-access); without this every case with such a struct would only repeat that report
                    jobs['G' + name] = ex.submit(ctx.cc, [os.path.join(hdir, 'build_script.c')] + objs, os.path.join(d, 'build_gen'),
                                                 san=True, defs=['-DNDEBUG', '-DWITH_GLUE'], incs=['-I' + hdir, '-I' + d], extra=['-fno-sanitize=alignment'])
                    if name == 'bnest':
                        jobs['P' + name] = ex.submit(ctx.cc, [os.path.join(hdir, 'build_script.c')] + objs, os.path.join(d, 'build_gen_al'),
                                                     san=True, defs=['-DNDEBUG', '-DWITH_GLUE'], incs=['-I' + hdir, '-I' + d])
        self.H = lib.Harness(jobs['build'].result())
        self.HG = {}
        for name in self.gdir:
            if 'G' + name in jobs:
                try:
                    self.HG[name] = lib.Harness(jobs['G' + name].result())
                except lib.BuildFailure as e:
                    ctx.violation('generated-builder-does-not-compile:' + name, 'generated builder code for corpus schema %s does not compile: %s' % (name, str(e)[-400:]),
                                  {'schema': self.by_name[name].fbs()})
        self.HP = {}
        for name in self.gdir:
            if 'P' + name in jobs:
                try: self.HP[name] = lib.Harness(jobs['P' + name].result())
                except lib.BuildFailure: pass
        self.BC = {}
        for name in self.gdir:
            try:
                self.BC[name] = lib.Harness(jobs[name].result())
            except lib.BuildFailure as e:
                ctx.violation('generated-code-does-not-compile:' + name, 'code generated for corpus schema %s does not compile: %s' % (name, str(e)[-400:]),
                              {'schema': self.by_name[name].fbs()})
        self.thash = {}
        for name, h in self.BC.items():
            roots = bu.roots_of(self.by_name[name])
            rc, res, err = h.run(['thash %d' % i for i in range(len(roots))])
            self.thash[name] = {r: int(x) for r, x in zip(roots, res)}
        ctx.log('implementation side built (%d schemas)' % len(self.BC))

    # ------------------------------------------------------------------ case generation
    def toplevel_opts(self, rng, s, root):
        # identifiers are 4 bytes, not strings: type hashes with a zero low (= first) byte exist (1 in 256), e.g. 0xb9441000
        idents = [None, None, b'ABCD', b'\x01\x00\x00\x00', b'\xff\xfe\xfd\xfc', b'\x00\x10\x44\xb9', b'\x00\x00\x00\x01']
        if s.ident: idents += [s.ident.encode()] * 2
        if root in self.thash.get(s.name, {}): idents.append(self.thash[s.name][root].to_bytes(4, 'little'))
        style = rng.choice(['se', 'se', 'se', 'c'])
        return {'clustering': rng.random() < 0.6, 'block_align': rng.choice([0, 0, 0, 1, 2, 4, 8, 16, 32, 64, 128, 256]),
                'ident': rng.choice(idents), 'with_size': rng.random() < 0.35, 'style': style,
                'early': style == 'se' and rng.random() < 0.3, 'align': 0}

    def make_case(self, rng, s, root=None, maxdepth=None, size=1.0, klass=None, opts=None, styles=True, nested_bias=False, gen_api=False, embed_bias=None, full=False, nest_only=False, embed_top=None, embed_ws=None, embed_min_depth=1):
        root = root or s.root
        vg = bu.ValueGen(s, rng, maxdepth=maxdepth if maxdepth is not None else rng.choice([1, 2, 2, 3]), size=size)
        if embed_bias is not None: vg.embed_bias = embed_bias
        if embed_ws is not None: vg.embed_ws_bias = embed_ws
        vg.full = full
        if root in s.tables:
            node = vg.table(root, 0)
        else:
            node = bu.Node('bytes', vg.inline(root), root)
        g = bu.ScriptGen(s, rng, styles=styles)
        g.gen_api = gen_api and s.name in self.HG
        g.moving_alloc = rng.random() < 0.3          # an allocator that moves every block it grows
        # flatcc's default (paged) emitter instead of the recording one: finished bytes only, no emit stream
        g.default_emitter = (not g.moving_alloc) and not g.gen_api and rng.random() < 0.15
        # an abandoned build (tables left open with fields added) and flatcc_builder_reset in front of the script: the model starts fresh
        if rng.random() < 0.2: g.abandon = bu.abandon_ops(rng)
        # flatcc_builder_reserve_table inside open tables started with a too small count (no effect on the layout: the model script is unchanged)
        if not g.gen_api and rng.random() < 0.3: g.reserve_bias = rng.choice([0.3, 1.0])
        g.corder = self.corder.get(s.name)
        g.thash = self.thash.get(s.name)
        g.embed_min_depth = embed_min_depth
        if embed_top is not None: g.embed_top_bias = embed_top      # nested fields of the top-level buffer filled by embed_buffer (depth 1)
        if full: g.create_bias = 1.0
        if nest_only: g.nest_only = True; g.create_bias = 0.0
        o = dict(opts or self.toplevel_opts(rng, s, root))
        if o['style'] == 'c' and bu.has_nested(node):
            # flatcc_builder.h: create_buffer is not suitable as a container for buffers created with start/end_buffer
            o['style'] = 'se'
        g.toplevel(node, o)
        return Case(s, root, node, g, o, klass or ('table-root' if root in s.tables else 'struct-root'))

    def make_wide_case(self, rng, count=130, many_vtables=False):
        """many sibling instances of one wide table type that differ only in which high-id fields are present (fixed add order):
        vtables of equal length / table size / leading entries - the vtable cache must still tell them apart.
        many_vtables: 100..400 distinct vtables of MANY lengths (12..64 bytes), clustered at the back of a top-level buffer that is
        finished through flatcc's default emitter: the back of the buffer outgrows the emitter's first half page (1472 bytes) and every
        further page (2944), vtables straddle the page boundaries at varying offsets"""
        s = self.by_name['bwide']
        node = bu.wide_value(s, rng, count, vary_end=many_vtables)
        g = bu.ScriptGen(s, rng, styles=False)
        o = {'clustering': True if many_vtables else rng.random() < 0.5, 'block_align': rng.choice([0, 0, 8, 64, 256]) if many_vtables else 0, 'ident': None,
             'with_size': many_vtables and rng.random() < 0.3, 'style': 'se', 'early': False, 'align': 0}
        g.default_emitter = many_vtables
        g.toplevel(node, o)
        return Case(s, s.root, node, g, o, 'many-distinct-vtables' if many_vtables else 'wide-presence-patterns')

    def make_pair_case(self, rng, gen_api=False):
        """table types whose vtables are equal except for the table size (bwide PA..PH), fields added in declaration order, the types in
        random order, clustered / inline vtables, runtime API or generated API, recording / moving allocator / default emitter"""
        s = self.by_name['bwide']
        node = bu.pair_value(s, rng)
        g = bu.ScriptGen(s, rng, styles=False)
        g.keep_order = True
        g.gen_api = gen_api and s.name in self.HG
        if g.gen_api: g.corder = self.corder.get(s.name); g.thash = self.thash.get(s.name); g.create_bias = 0.0
        g.moving_alloc = rng.random() < 0.3
        g.default_emitter = (not g.moving_alloc) and not g.gen_api and rng.random() < 0.3
        o = {'clustering': rng.random() < 0.5, 'block_align': 0, 'ident': None, 'with_size': rng.random() < 0.3, 'style': 'se', 'early': False, 'align': 0}
        g.toplevel(node, o)
        return Case(s, s.root, node, g, o, 'vtable-size-pairs')

    def make_many_nested_case(self, rng, levels, styles=False):
        """one build with 34..80 and more nested buffers (chain and siblings) whose tables repeat the parent's and each other's shapes"""
        s = self.by_name['bnest']
        node = bu.many_nested_value(s, rng, levels)
        g = bu.ScriptGen(s, rng, styles=styles)
        g.moving_alloc = rng.random() < 0.3
        g.default_emitter = (not g.moving_alloc) and rng.random() < 0.2
        g.embed_min_depth = 99
        o = {'clustering': rng.random() < 0.6, 'block_align': 0, 'ident': rng.choice([None, b'NEST']), 'with_size': rng.random() < 0.3, 'style': 'se', 'early': False, 'align': 0}
        g.toplevel(node, o)
        return Case(s, s.root, node, g, o, 'many-nested-buffers')

    def make_union_realloc_case(self, rng, inline):
        """generated <T>_<union>_add with the open table's inline data ending `inline` bytes into the data stack, moving allocator"""
        s = self.by_name['bwide']
        node = bu.union_realloc_value(s, rng, inline)
        g = bu.ScriptGen(s, rng, styles=False)
        g.gen_api = True; g.keep_order = True; g.create_bias = 0.0; g.moving_alloc = True
        g.corder = self.corder.get(s.name); g.thash = self.thash.get(s.name)
        o = {'clustering': True, 'block_align': 0, 'ident': None, 'with_size': False, 'style': 'se', 'early': False, 'align': 0}
        g.h.append('X:1:0:-'); g.m.append('X:1:0:0')
        g.h.append('B:-:0:0'); g.m.append('B:0:0:0')
        # the union member exists before the table is opened: nothing else touches the data stack between <T>_start and the union add
        member = [v for f, v in node.b if v.kind == 'union'][0].b
        g.gen_api = False; g.node(member); g.gen_api = True
        r = g.table_gen(node)
        g.h.append('E:%d' % r); g.m.append('E:%d' % r); g.new()
        return Case(s, 'WU', node, g, o, 'union-add-at-stack-growth')

    # ------------------------------------------------------------------ running
    def run_builds(self, cases):
        ctx = self.ctx
        groups = {}
        for i, c in enumerate(cases):
            groups.setdefault(c.schema.name if c.gen.gen_api else None, []).append(i)
        hres = [None] * len(cases)
        with concurrent.futures.ThreadPoolExecutor(max_workers=8) as ex:
            futs = {k: ex.submit(lib.run_harness_resilient, self.H if k is None else self.HG[k], [cases[i].h for i in idx]) for k, idx in groups.items()}
            for k, f in futs.items():
                for i, r in zip(groups[k], f.result()): hres[i] = r
        mres = ctx.run_model('builder', [c.m for c in cases])
        for c, a, b in zip(cases, hres, mres):
            if getattr(c.gen, 'default_emitter', False) and b.startswith('OK '):
                b = re.sub(r' emits=\S+', ' emits=-', b)      # the default emitter's pages are not observable call by call: finished bytes only
            if c.gen.opaque:
                a, b = mask_refs(a, c.gen.opaque), mask_refs(b, c.gen.opaque)
            c.hrep, c.mrep = a, b
            c.himpl, c.mimpl = parse_reply(a), parse_reply(b)

    def verify_lines(self, s, root, ws, stored_id, align, raw):
        """[(line, expected accept, label)] over every generated verify variant for this root"""
        ri = bu.roots_of(s).index(root)
        am = align if 0 < align < 256 else 0
        hexb = raw.hex() if raw else '-'
        sid = stored_id or b'\0\0\0\0'
        sidw = int.from_bytes(sid, 'little')
        th = self.thash[s.name][root]
        fileid = s.ident.encode() if s.ident else None
        out = []

        def add(mode, fid, thash, expect, label):
            out.append(('verify %d %d %d %s %d %d %s' % (ri, ws, mode, fid.hex() if fid else '-', thash, am, hexb), expect, label))
        add(1, None, 0, True, 'with_identifier(null)')
        if sidw and 0 not in sid: add(1, sid, 0, True, 'with_identifier(stored)')
        add(1, b'ZZZZ', 0, sid == b'ZZZZ', 'with_identifier(other)')
        add(0, None, 0, (fileid is None) or sid == fileid, 'as_root')
        add(2, None, 0, sidw == th, 'as_typed_root')
        add(3, None, 0, True, 'with_type_hash(0)')
        if sidw: add(3, None, sidw, True, 'with_type_hash(stored)')
        return out

    def dec_line(self, s, root, ws, depth, align, raw):
        return 'dec %s %s %d %d %d %s' % (s.descriptor(), s.root_desc(root), ws, depth, align, raw.hex() if raw else '-')

    def run_bc(self, name, lines):
        if not lines: return []
        return lib.run_harness_resilient(self.BC[name], lines)

    def run_bc_all(self, items):
        """items: [(schema name, line)] -> replies in order"""
        per = {}
        for i, (name, line) in enumerate(items): per.setdefault(name, []).append((i, line))
        out = [None] * len(items)
        with concurrent.futures.ThreadPoolExecutor(max_workers=8) as ex:
            futs = {name: ex.submit(self.run_bc, name, [l for _, l in lst]) for name, lst in per.items() if name in self.BC}
            for name, f in futs.items():
                for (i, _), r in zip(per[name], f.result()): out[i] = r
        return out

    # ------------------------------------------------------------------ embed_buffer without a parent buffer
    def embed_no_parent(self, rng, count, key_prefix=''):
        """flatcc_builder_embed_buffer with NO buffer open (level 0; flatcc_builder.h: "If the buffer is embedded without a parent buffer, it
        will simply emit the buffer through the emit interface, but may also add padding up to block alignment. At top-level there will be
        no size field header"): model / implementation byte for byte, and on the implementation's bytes: they start with the embedded
        bytes, the generated verifier accepts them at an address aligned to the reported alignment, the independent decoder returns the value."""
        ctx = self.ctx
        recs = []
        for s in self.corpus:
            if s.name not in self.BC: continue
            for i in range(count):
                vg = bu.ValueGen(s, rng, maxdepth=rng.choice([1, 2]), size=0.3)
                root = rng.choice([s.root] + list(s.structs))
                node = vg.table(root, 0) if root in s.tables else bu.Node('bytes', vg.inline(root), root)
                enc = bu.IndepEncoder(s, rng, extra_pad=False)
                data = enc.buffer(root, node, False, None)
                ea = rng.choice([0, 1, 2, 4, 8, 16, 32, 64, 128, 256])
                al = ea if max(ea, 4) >= enc.maxal else enc.maxal
                ba, sba, cl = rng.choice([0, 0, 1, 4, 16, 64, 256]), rng.choice([0, 0, 0, 2, 8, 32, 128]), rng.choice([0, 1])
                fl = 2 if rng.random() < 0.2 else 0
                ops = 'X:%d:%d:%s M:%d:%d:%d:%s' % (cl, sba, '%s', ba, al, fl, data.hex())
                recs.append((s, root, node, data, max(al, 4, ba or sba or 1), fl, 'build ' + ops % '-', 'run ' + ops % '0'))
        hres = lib.run_harness_resilient(self.H, [r[6] for r in recs])
        mres = ctx.run_model('builder', [r[7] for r in recs])
        ver, dec, meta = [], [], []
        for (s, root, node, data, al, fl, h, m), hr, mr in zip(recs, hres, mres):
            ctx.count(h, klass='build:embed-no-parent')
            hi = parse_reply(hr)
            base = {'harness_line': h, 'model_line': m, 'schema': s.name, 'impl': (hr or '')[:1500], 'model': mr[:1500]}
            if hi is None:
                ctx.violation(key_prefix + 'build-failed:embed-no-parent', 'embed_buffer without a parent buffer fails or crashes: ' + (hr or '')[:300], base); continue
            raw = hi['raw']
            if raw[:len(data)] != data:
                ctx.violation(key_prefix + 'embed-no-parent-header', 'embed_buffer without a parent buffer does not emit the bytes as they are (no size field header is documented)', base); continue
            if hi['align'] < al or hi['align'] % al:
                ctx.violation(key_prefix + 'embed-no-parent-alignment', 'embed_buffer without a parent buffer: reported alignment %d, requested %d' % (hi['align'], al), base); continue
            if hr != mr:
                ctx.violation('corr:build:embed-no-parent', 'model and implementation disagree on embed_buffer without a parent buffer', base); continue
            if fl: continue            # with_size without a parent: only the padding changes (no size field is written); correspondence only
            ver.append((s.name, self.verify_lines(s, root, 0, None, hi['align'], raw)[0][0])); dec.append(self.dec_line(s, root, 0, bu.value_depth(node) + 2, hi['align'], raw))
            meta.append((s, node, base))
        vres = self.run_bc_all(ver)
        dres = ctx.run_model('builder', dec) if dec else []
        for (name, vl), vr, dl, dr, (s, node, base) in zip(ver, vres, dec, dres, meta):
            if vr is not None and not vr.startswith('0 '):
                ctx.violation(key_prefix + 'embed-no-parent-rejected', 'bytes emitted by embed_buffer without a parent buffer are rejected by the generated verifier: ' + vr[:200], dict(base, verify_line=vl))
            elif dr != bu.render_dec(s, node):
                ctx.violation(key_prefix + 'embed-no-parent-decodes-differently', 'bytes emitted by embed_buffer without a parent buffer do not decode to the embedded value', dict(base, dec_line=dl[:3000]))
        return len(recs)

    # ------------------------------------------------------------------ alignments above the padding block (out of the documented range)
    PAD_KEY = 'pad-overread:align-above-512'

    def align_above_512(self, rng, count, nested_only=False):
        """Alignment arguments of 1024 and more (block_align of set_block_align / start_buffer / create_buffer / embed_buffer 1024..32768,
        align of create_vector / create_struct / embed_buffer 1024). flatcc_builder.h documents 'All alignment in all API calls must be
        between 1 and 256 ... This is not checked'; the padding is handed to the emitter as ONE iov entry taken from the 512 byte
        flatcc_builder_padding_base, so a padding above 512 bytes makes the emitter read past that array. Every script runs in its own
        harness process (a sanitizer report ends the process); all over-reads are reported under ONE key; without an over-read the result
        must equal the model's (the model pads with as many zero bytes as needed)."""
        ctx = self.ctx
        recs = []
        data = bytes.fromhex('0c00000000000600080004000600000007000000')      # a minimal table buffer: one int field = 7
        for i in range(count):
            big = rng.choice([1024, 2048, 4096, 32768])
            cl = rng.choice([0, 1]); fl = rng.choice([0, 2]); n = rng.choice([1, 3, 7, 30, 200, 600])
            body = 'S:c:%s Ts:2 Ti:a:0:4:4:%s To:1:%%d Te' % (bytes(rng.randrange(1, 256) for _ in range(n)).hex(), rng.randrange(1 << 32).to_bytes(4, 'little').hex())
            sites = ['embed_buffer:align', 'embed_buffer:block_align', 'start_buffer(nested):block_align', 'create_vector(nested):align'] if nested_only else \
                    ['set_block_align', 'start_buffer:block_align', 'create_buffer:block_align', 'create_vector:align', 'create_struct:align',
                     'embed_buffer:align', 'embed_buffer:block_align', 'start_buffer(nested):block_align']
            site = sites[i % len(sites)]
            if site == 'set_block_align': ops, al = 'X:%d:%d:- B:-:0:%d %s E:1' % (cl, big, fl, body % 0), big
            elif site == 'start_buffer:block_align': ops, al = 'X:%d:0:- B:-:%d:%d %s E:1' % (cl, big, fl, body % 0), big
            elif site == 'create_buffer:block_align': ops, al = 'X:%d:0:- %s C:-:%d:1:0:%d' % (cl, body % 0, big, fl), big
            elif site == 'create_vector:align':
                ops, al = 'X:%d:0:- B:-:0:%d V:c:1:1024:4294967295:%d:%s Ts:2 To:1:0 Te E:1' % (cl, fl, n, bytes(rng.randrange(256) for _ in range(n)).hex()), 1024
            elif site == 'create_struct:align': ops, al = 'X:%d:0:- B:-:0:%d R:c:1024:%s E:0' % (cl, fl, bytes(rng.randrange(256) for _ in range(8)).hex()), 1024
            elif site == 'embed_buffer:align': ops, al = 'X:%d:0:- B:-:0:%d %s M:0:1024:%d:%s Ts:3 To:0:1 To:2:2 Te E:3' % (cl, fl, body % 0, rng.choice([0, 2]), data.hex()), 1024
            elif site == 'embed_buffer:block_align': ops, al = 'X:%d:0:- B:-:0:%d %s M:%d:4:0:%s Ts:3 To:0:1 To:2:2 Te E:3' % (cl, fl, body % 0, big, data.hex()), big
            elif site == 'start_buffer(nested):block_align':
                ops, al = 'X:%d:0:- B:-:0:%d %s B:-:%d:0 %s E:3 Ts:3 To:0:1 To:2:4 Te E:5' % (cl, fl, body % 0, big, body.replace('%d', '2')), big
            else:
                ops, al = 'X:%d:0:- B:-:0:%d B:-:0:0 V:c:1:1024:4294967295:%d:%s Ts:2 To:1:0 Te E:1 Ts:1 To:0:2 Te E:3' % (cl, fl, n, bytes(rng.randrange(256) for _ in range(n)).hex()), 1024
            h, m = 'build ' + ops, 'run ' + self._model_ops(ops)
            recs.append((site, al, h, m))
        mres = ctx.run_model('builder', [r[3] for r in recs])
        hits = []
        for (site, al, h, m), mr in zip(recs, mres):
            ctx.count(h, klass='build:align-above-512')
            rc, res, err = self.H.run([h])             # one process per script
            base = {'harness_line': h, 'model_line': m, 'site': site, 'alignment': al}
            if not res:
                if 'flatcc_builder_padding_base' in err and 'global-buffer-overflow' in err:
                    fr = re.findall(r'in (flatcc_builder_\w+|emit_front|emit_back)', err)
                    hits.append((site, al, [f for f in fr if f.startswith('flatcc_builder_')][:1] or fr[:1], base, err))
                else:
                    ctx.violation('crash:' + self.crash_key(err), 'the builder crashes (sanitizer) with an alignment argument of %d at %s, and not in the padding block: %s' % (al, site, err[:400]),
                                  dict(base, stderr=err[:1500]))
                continue
            hr = res[0]
            if parse_reply(hr) is None or hr != mr:
                ctx.violation('corr:build:align-above-512', 'alignment %d at %s, no over-read of the padding block, but model and implementation disagree' % (al, site),
                              dict(base, impl=hr[:3000], model=mr[:3000]))
        if hits:
            by = {}
            for site, al, fr, base, err in hits: by.setdefault('%s=%d (%s)' % (site, al, fr[0] if fr else '?'), base)
            site, al, fr, base, err = hits[0]
            ctx.violation(self.PAD_KEY,
                          'alignment arguments above 512 make the emitter read past the 512 byte flatcc_builder_padding_base (the builder hands a padding of up to align - 1 bytes '
                          'to the emitter as one iov entry; AddressSanitizer: global-buffer-overflow READ right of the array). flatcc_builder.h:875 documents alignments 1..256, '
                          '"This is not checked"; alignments up to 512 stay exact. %d of %d scripts: %s' % (len(hits), len(recs), '; '.join(sorted(by))),
                          dict(base, stderr=err[:1500], all_sites=sorted(by)))
        return len(recs), len(hits)

    @staticmethod
    def _model_ops(ops):
        """harness create-level ops -> model ops (S:c:h -> S:h, V:c:... -> V:..., R:c:... -> R:..., Ts/Ti:a/To/Te -> T:adds)"""
        out, adds = [], None
        for t in ops.split():
            f = t.split(':')
            if f[0] == 'S': out.append('S:' + f[2])
            elif f[0] == 'V': out.append('V:' + ':'.join(f[2:]))
            elif f[0] == 'R': out.append('R:' + ':'.join(f[2:]))
            elif f[0] == 'Ts': adds = []
            elif f[0] == 'Ti': adds.append('i/%s/%s/%s/%s' % (f[2], f[3], f[4], f[5]))
            elif f[0] == 'To': adds.append('o/%s/%s' % (f[1], f[2]))
            elif f[0] == 'Te': out.append('T:' + ';'.join(adds)); adds = None
            elif f[0] in ('B', 'C'): out.append(':'.join([f[0], '0' if f[1] == '-' else str(int.from_bytes(bytes.fromhex(f[1]).ljust(4, b'\0')[:4], 'little'))] + f[2:]))
            elif f[0] == 'X' and f[3] == '-': out.append(':'.join(f[:3] + ['0']))
            else: out.append(t)
        return ' '.join(out)

    # ------------------------------------------------------------------ tables at the 64 KB limit of the vtable's table size field
    def table_size_limit(self, rng, count):
        """Tables whose inline data ends within a few bytes of, exactly at, one field beyond and far beyond the largest size a vtable
        can describe (table size = 4 + data <= 65535, every field position below it). Fits: the builder must succeed and the independent
        decoder must return every field; does not fit: table_add / table_add_offset must FAIL (the model refuses), never finish a table
        whose vtable holds truncated values."""
        ctx = self.ctx
        LIM = 65531                                    # largest data size: 4 + 65531 = 65535
        recs = []
        # sweep: a 1 / 2 / 4 byte inline field or an offset field at EVERY inline offset 65520..65540 it can be aligned to, after big blocks
        sweep = [(kind, sz, pos) for pos in range(65520, 65541) for kind, sz in (('inline', 1), ('inline', 2), ('inline', 4), ('offset', 4)) if pos % sz == 0]
        if not ctx.thorough: sweep = [x for x in sweep if x[2] + x[1] >= LIM - 3]      # quick: the ends 65528..; thorough: all
        for i in range(len(sweep) + count):
            if i < len(sweep):
                kind, sz, pos = sweep[i]; al = sz
                before, chunk = pos, rng.choice([4096, 4096, 8000])
            else:
                kind = ['inline', 'offset'][i % 2]
                sz, al = (4, 4) if kind == 'offset' else rng.choice([(1, 1), (2, 2), (4, 4), (8, 8), (100, 1), (100, 4), (24, 8), (3000, 2)])
                delta = [0, 1, -1, 2, -2, 3, -3, 4, 5, -4, 8, -8, 64, -64, 4469, 65536 + 17][(i // 2) % 16]
                pos = LIM + delta - sz; pos -= pos % al       # where the crossing field goes: it ends at (or, aligned down, just below) LIM + delta
                before = pos - rng.randrange(al)              # padding in front of it
                chunk = rng.choice([100, 1000, 4000, 8000])
            fields, off, fid = [], 0, 0                 # (id, 'i', size, align, bytes) | (id, 'o')
            while off + chunk <= before - 16:
                fields.append((fid, 'i', chunk, 1, bytes([fid % 251 + 1]) * chunk)); off += chunk; fid += 1
            if before - off > 0:
                r = before - off
                fields.append((fid, 'i', r, 1, bytes([0xEE]) * r)); off += r; fid += 1
            crossing = fid
            fields.append((fid, 'i', sz, al, bytes(rng.randrange(1, 256) for _ in range(sz))) if kind == 'inline' else (fid, 'o')); fid += 1
            for k in range(rng.choice([0, 0, 1, 3]) if i >= len(sweep) or i % 3 == 0 else 0):   # more fields after the one that crosses
                fields.append((fid, 'i', 4, 4, rng.randrange(1 << 32).to_bytes(4, 'little')) if rng.random() < 0.6 else (fid, 'o')); fid += 1
            # layout as the format defines it (independent of model and C): running offset, align up, add
            off = 0
            for f in fields:
                a, z = (f[3], f[2]) if f[1] == 'i' else (4, 4)
                off = (off + a - 1) // a * a + z
            total = off
            sv = bytes(rng.randrange(1, 256) for _ in range(rng.choice([1, 5, 40])))
            ws = rng.choice([0, 2]); cl = rng.choice([0, 1])
            ops = ['X:%d:0:-' % cl, 'B:-:0:%d' % ws, 'S:c:' + sv.hex(), 'Ts:%d' % (fid + rng.choice([0, 0, 2]))]
            for f in fields:
                ops.append('Ti:a:%d:%d:%d:%s' % (f[0], f[2], f[3], f[4].hex()) if f[1] == 'i' else 'To:%d:0' % f[0])
            ops += ['Te', 'E:1']
            ops = ' '.join(ops)
            desc = ';'.join('%d,0,s:%d:%d' % (f[0], f[2], f[3]) if f[1] == 'i' else '%d,0,str' % f[0] for f in fields) + '#-'
            exp = 't{' + ';'.join('%d=b%s' % (f[0], f[4].hex()) if f[1] == 'i' else '%d=s%s' % (f[0], sv.hex()) for f in fields) + '}'
            recs.append({'h': 'build ' + ops, 'm': 'run ' + self._model_ops(ops), 'total': total, 'fits': total <= LIM, 'desc': desc, 'exp': exp,
                         'ws': 1 if ws else 0, 'crossing': crossing, 'kind': kind, 'nf': len(fields)})
        hres = lib.run_harness_resilient(self.H, [r['h'] for r in recs])
        mres = ctx.run_model('builder', [r['m'] for r in recs])
        dl, dm = [], []
        for r, hr, mr in zip(recs, hres, mres):
            ctx.count(r['h'], klass='build:table-size-limit-' + ('fits' if r['fits'] else 'too-large'))
            hi = parse_reply(hr)
            r['hr'], r['mr'], r['hi'] = hr, mr, hi
            if hi is not None:
                r['dec'] = 'dec %s t:0 %d 3 %d %s' % (r['desc'], r['ws'], hi['align'], hi['raw'].hex())
                dl.append(r['dec']); dm.append(r)
        for r, d in zip(dm, ctx.run_model('builder', dl) if dl else []): r['d'] = d
        nbad = 0
        for r in recs:
            hr, mr, hi = r['hr'], r['mr'], r['hi']
            base = {'harness_line': r['h'], 'model_line': r['m'], 'inline_data_bytes': r['total'], 'largest_representable': LIM, 'impl': hr[:400], 'model': mr[:400]}
            what = '%d fields, %d bytes of inline data (table size %d, limit 65535), the field that crosses is %s field id %d' % (r['nf'], r['total'], r['total'] + 4, r['kind'], r['crossing'])
            if hr.startswith('CRASH'):
                ctx.violation('crash:' + self.crash_key(hr), 'the builder crashes (sanitizer) on a table at the size limit (%s): %s' % (what, hr[:300]), base); continue
            if (mr.startswith('OK')) != r['fits']:
                ctx.violation('checker:table-size-limit', 'check machinery: the model %s a table with %s' % ('refuses' if r['fits'] else 'builds', what), base, kind='no-failing-input-found'); continue
            if r['fits']:
                if hi is None:
                    ctx.violation('build-failed:table-within-size-limit', 'the builder refuses a table that fits (%s): %s' % (what, hr[:200]), base)
                elif r.get('d') != r['exp']:
                    ctx.violation('malformed-buffer:table-at-size-limit', 'a table that fits (%s) does not decode to the fields added (independent decoder: %s)' % (what, r.get('d', '')[:60]),
                                  dict(base, dec_line=r['dec'], expected=r['exp'][:200]))
                elif hr != mr:
                    ctx.violation('corr:build:table-at-size-limit', 'model and implementation disagree on a table that fits (%s)' % what, base)
                continue
            if hi is not None:
                nbad += 1
                raw = hi['raw']; hp = 4 * r['ws']
                try:
                    t = hp + int.from_bytes(raw[hp:hp + 4], 'little'); vt = t - int.from_bytes(raw[t:t + 4], 'little', signed=True)
                    stored = 'its vtable stores table size %d' % int.from_bytes(raw[vt + 2:vt + 4], 'little')
                    ents = [int.from_bytes(raw[vt + 4 + 2 * k:vt + 6 + 2 * k], 'little') for k in range(r['nf'])]
                    wrapped = [k for k in range(1, len(ents)) if ents[k] and ents[k] < ents[k - 1]]
                    if wrapped: stored += ', field %d at position %d after field %d at %d' % (wrapped[0], ents[wrapped[0]], wrapped[0] - 1, ents[wrapped[0] - 1])
                except Exception:
                    stored = 'header unreadable'
                ctx.violation('table-too-large-not-refused',
                              'flatcc_builder_table_add / table_add_offset never fail when the inline data of a table outgrows what the 16 bit table size and field positions of the vtable can '
                              'hold; end_table only asserts (debug builds) and with NDEBUG finishes a malformed table: %s; %s; independent decoder: %s' % (what, stored, r.get('d', '')[:40]),
                              dict(base, dec_line=r.get('dec', '')))
        return len(recs), nbad

    # ------------------------------------------------------------------ vtables equal except for the table size
    @staticmethod
    def _vt_bucket(words, width=6):
        """bucket of flatcc's default vtable hash (flatcc_builder.h FLATCC_BUILDER_*_VT_HASH, 64 buckets): used ONLY to aim the generator
        at pairs that meet in one chain of the cache; no oracle depends on it"""
        x = 0x2f693b52
        for k, v in enumerate(words):
            x = ((((k ^ x) * 2654435761) & 0xffffffff) ^ v) * 2654435761 & 0xffffffff
        return x >> (32 - width)

    def vtable_size_pairs(self, rng, count):
        """Pairs of table shapes with identical field positions whose LAST field differs in width (1/2/4/8): their vtables are equal in
        length and in every entry except the table size. Many pairs in one buffer - among them pairs whose vtables fall into the same
        bucket of the vtable cache -, narrower first or wider first, clustered and inline vtables. Model byte for byte; the finished
        bytes through the independent decoder over a synthetic schema (every field of every table must read back)."""
        ctx = self.ctx
        import itertools
        shapes = []
        for n in (1, 2, 3, 4):
            for pre in itertools.product([1, 2, 4, 8], repeat=n):
                for w1, w2 in ((1, 2), (1, 4), (1, 8), (2, 4), (2, 8), (4, 8)):
                    def lay(sizes):
                        off, ent = 0, []
                        for z in sizes:
                            off = (off + z - 1) // z * z; ent.append(off + 4); off += z
                        return ent, off + 4
                    (e1, t1), (e2, t2) = lay(list(pre) + [w1]), lay(list(pre) + [w2])
                    if e1 != e2: continue
                    vs = 2 * (len(e1) + 2)
                    shapes.append((pre, w1, w2, self._vt_bucket([vs, t1] + e1) == self._vt_bucket([vs, t2] + e2)))
        meet = [x for x in shapes if x[3]]
        recs = []
        for i in range(count):
            npairs = rng.choice([4, 12, 40])
            pick = rng.sample(meet, min(len(meet), max(2, npairs // 3))) + [rng.choice(shapes) for _ in range(npairs)]
            rng.shuffle(pick)
            cl, ws = i % 2, rng.choice([0, 2])
            ops = ['X:%d:0:-' % cl, 'B:-:0:%d' % ws]
            tables, exps, reg = [], [], 0
            for pre, w1, w2, _ in pick:
                order = [w1, w2] if rng.random() < 0.5 else [w2, w1]        # narrower first / wider first
                if rng.random() < 0.3: order.append(order[0])                # and once more: must find its own vtable again
                for w in order:
                    sizes = list(pre) + [w]
                    vals = [bytes(rng.randrange(1, 256) for _ in range(z)) for z in sizes]
                    ops.append('Ts:%d' % len(sizes))
                    ops += ['Ti:a:%d:%d:%d:%s' % (k, z, z, v.hex()) for k, (z, v) in enumerate(zip(sizes, vals))]
                    ops.append('Te')
                    tables.append(';'.join('%d,0,s:%d:%d' % (k, z, z) for k, z in enumerate(sizes)))
                    exps.append('t{' + ';'.join('%d=b%s' % (k, v.hex()) for k, v in enumerate(vals)) + '}')
                    reg += 1
            nt = len(tables)
            ops.append('Ts:%d' % nt); ops += ['To:%d:%d' % (k, k) for k in range(nt)]; ops += ['Te', 'E:%d' % nt]
            ops = ' '.join(ops)
            desc = '|'.join(tables + [';'.join('%d,0,t:%d' % (k, k) for k in range(nt))]) + '#-'
            exp = 't{' + ';'.join('%d=%s' % (k, e) for k, e in enumerate(exps)) + '}'
            recs.append({'h': ('buildd ' if i % 4 == 3 else 'build ') + ops, 'm': 'run ' + self._model_ops(ops), 'desc': desc, 'root': nt, 'exp': exp, 'ws': 1 if ws else 0,
                         'meet': sum(1 for x in pick if x[3]), 'pairs': len(pick)})
        hres = lib.run_harness_resilient(self.H, [r['h'] for r in recs])
        mres = ctx.run_model('builder', [r['m'] for r in recs])
        dl, dm = [], []
        for r, hr, mr in zip(recs, hres, mres):
            ctx.count(r['h'], klass='build:vtable-size-pairs')
            if r['h'].startswith('buildd ') and mr.startswith('OK '): mr = re.sub(r' emits=\S+', ' emits=-', mr)
            r['hr'], r['mr'], r['hi'] = hr, mr, parse_reply(hr)
            if r['hi'] is not None:
                r['dec'] = 'dec %s t:%d %d 3 %d %s' % (r['desc'], r['root'], r['ws'], r['hi']['align'], r['hi']['raw'].hex())
                dl.append(r['dec']); dm.append(r)
        for r, d in zip(dm, ctx.run_model('builder', dl) if dl else []): r['d'] = d
        for r in recs:
            base = {'harness_line': r['h'], 'model_line': r['m'], 'impl': r['hr'][:600], 'model': r['mr'][:600]}
            what = '%d pairs of table shapes whose vtables differ in the table size only (%d of them in one bucket of the vtable cache)' % (r['pairs'], r['meet'])
            if r['hr'].startswith('CRASH'):
                ctx.violation('crash:' + self.crash_key(r['hr']), 'the builder crashes (sanitizer) on %s: %s' % (what, r['hr'][:300]), base)
            elif r['hi'] is None:
                ctx.violation('build-failed:vtable-size-pairs', 'a builder call fails on %s: %s' % (what, r['hr'][:200]), base)
            elif r.get('d') != r['exp']:
                got = r.get('d', '')
                k = next((j for j in range(min(len(got), len(r['exp']))) if got[j] != r['exp'][j]), 0)
                ctx.violation('malformed-buffer:vtable-shared-across-table-sizes' if got == 'NONE' else 'decodes-differently:vtable-size-pairs',
                              'a buffer with %s does not decode to the fields added (independent decoder: %s; expected ..%s): a table points at a vtable recorded for another table size'
                              % (what, got[max(0, k - 20):k + 40] or got[:40], r['exp'][max(0, k - 20):k + 40]), dict(base, dec_line=r['dec'][:6000]))
            elif r['hr'] != r['mr']:
                ctx.violation('corr:build:vtable-size-pairs', 'model and implementation disagree on %s' % what, base)
        return len(recs)

    # ------------------------------------------------------------------ wide tables nested top-down
    def wide_nested_topdown(self, rng, count, key_prefix='read-differs'):
        """Tables with high field ids (500..2000) opened INSIDE each other (start_table of the child while the parent is open) to depth
        20..100: a field with the highest id (and a low one) added BEFORE descending, the reference to the child and further fields after
        returning; every open ancestor keeps 2 * (highest id + 3) bytes on the vtable stack, which passes 64 KB on the way down. The
        same value built bottom-up as a control. Model byte for byte; the finished bytes through the independent decoder: every field
        that was added must be present with its value, at every level."""
        ctx = self.ctx
        recs = []
        for i in range(count):
            hi = rng.choice([500, 700, 998, 1500, 2000]) if i % 5 else 998
            depth = rng.choice([20, 34, 35, 36, 40, 66, 90, 100]) if i % 3 else (65536 // (2 * (hi + 3)) + rng.choice([-1, 0, 1, 2, 5]))
            depth = max(3, min(depth, 100))
            topdown = i % 6 != 5
            cid, lo, mid = 3, 0, rng.randrange(4, hi)        # child reference id, a low id, one more id added after returning
            levels = [{'hi': rng.randrange(1 << 32).to_bytes(4, 'little'), 'lo': bytes([rng.randrange(1, 256)]), 'mid': rng.randrange(1 << 16).to_bytes(2, 'little'),
                       'hi_first': rng.random() < 0.7} for _ in range(depth)]
            cl, ws = rng.choice([0, 1]), rng.choice([0, 2])
            ops = ['X:%d:0:-' % cl, 'B:-:0:%d' % ws]

            def adds_before(L): return ['Ti:a:%d:4:4:%s' % (hi, L['hi'].hex()), 'Ti:a:%d:1:1:%s' % (lo, L['lo'].hex())] if L['hi_first'] else ['Ti:a:%d:1:1:%s' % (lo, L['lo'].hex())]
            def adds_after(L): return ['Ti:a:%d:2:2:%s' % (mid, L['mid'].hex())] + ([] if L['hi_first'] else ['Ti:a:%d:4:4:%s' % (hi, L['hi'].hex())])
            # results are numbered in completion order: the innermost table completes first (register 0) in both construction orders
            if topdown:
                for L in levels[:-1]: ops += ['Ts:%d' % (hi + 1)] + adds_before(L)
                L = levels[-1]; ops += ['Ts:%d' % (hi + 1)] + adds_before(L) + adds_after(L) + ['Te']
                for k, L in enumerate(reversed(levels[:-1])): ops += ['To:%d:%d' % (cid, k)] + adds_after(L) + ['Te']
                mops = self._model_ops(' '.join(self._bottom_up(levels, hi, cid, adds_before, adds_after, ops[:2])))
            else:
                ops = self._bottom_up(levels, hi, cid, adds_before, adds_after, ops[:2]); mops = self._model_ops(' '.join(ops))
            ops.append('E:%d' % (depth - 1)); mops += ' E:%d' % (depth - 1)
            desc = ';'.join('%d,0,%s' % (k, v) for k, v in sorted({lo: 's:1:1', cid: 't:0', mid: 's:2:2', hi: 's:4:4'}.items())) + '#-'
            exp = None
            for L in reversed(levels):
                f = {lo: 'b' + L['lo'].hex(), mid: 'b' + L['mid'].hex(), hi: 'b' + L['hi'].hex()}
                if exp is not None: f[cid] = exp
                exp = 't{' + ';'.join('%d=%s' % kv for kv in sorted(f.items())) + '}'
            recs.append({'h': 'build ' + ' '.join(ops), 'm': 'run ' + mops, 'desc': desc, 'exp': exp, 'ws': 1 if ws else 0, 'depth': depth, 'hi': hi, 'topdown': topdown})
        hres = lib.run_harness_resilient(self.H, [r['h'] for r in recs])
        mres = ctx.run_model('builder', [r['m'] for r in recs])
        dl, dm = [], []
        for r, hr, mr in zip(recs, hres, mres):
            ctx.count(r['h'], klass='build:wide-tables-nested-' + ('top-down' if r['topdown'] else 'bottom-up'))
            r['hr'], r['mr'], r['hi_'] = hr, mr, parse_reply(hr)
            if r['hi_'] is not None:
                r['dec'] = 'dec %s t:0 %d %d %d %s' % (r['desc'], r['ws'], r['depth'] + 3, r['hi_']['align'], r['hi_']['raw'].hex())
                dl.append(r['dec']); dm.append(r)
        for r, d in zip(dm, ctx.run_model('builder', dl) if dl else []): r['d'] = d
        for r in recs:
            base = {'harness_line': r['h'][:200000], 'model_line': r['m'][:200000], 'impl': r['hr'][:400], 'model': r['mr'][:400]}
            what = 'tables with field ids up to %d nested %s to depth %d (vtable stack %d bytes while the innermost table is open)' % (
                r['hi'], 'top-down (child started while the parent is open)' if r['topdown'] else 'bottom-up', r['depth'], 2 * (r['hi'] + 3) * r['depth'])
            if r['hr'].startswith('CRASH'):
                ctx.violation('crash:' + self.crash_key(r['hr']), 'the builder crashes (sanitizer) on %s: %s' % (what, r['hr'][:300]), base)
            elif r['hi_'] is None:
                ctx.violation('build-failed:wide-tables-nested', 'a builder call fails on %s: %s' % (what, r['hr'][:200]), base)
            elif r.get('d') != r['exp']:
                got, exp = r.get('d', ''), r['exp']
                k = next((j for j in range(min(len(got), len(exp))) if got[j] != exp[j]), min(len(got), len(exp)))
                lvl = exp[:k].count('t{')
                ctx.violation(key_prefix + ':wide-tables-nested-top-down',
                              '%s: the finished buffer does not read back what was added (independent decoder), first difference at nesting level %d: read ..%s, written ..%s '
                              '(fields that were added read absent)' % (what, lvl, got[max(0, k - 30):k + 30], exp[max(0, k - 30):k + 30]), dict(base, dec_line=r['dec'][:200000]))
            elif r['hr'] != r['mr']:
                ctx.violation('corr:build:wide-tables-nested', 'model and implementation disagree on %s' % what, base)
        return len(recs)

    @staticmethod
    def _bottom_up(levels, hi, cid, adds_before, adds_after, head):
        ops = list(head)
        for k, L in enumerate(reversed(levels)):
            ops += ['Ts:%d' % (hi + 1)] + adds_before(L) + (['To:%d:%d' % (cid, k - 1)] if k else []) + adds_after(L) + ['Te']
        return ops

    # ------------------------------------------------------------------ push / pop_buffer_alignment around create_buffer(is_nested)
    def push_pop_alignment(self, rng, count):
        """The documented low-level path for nested STRUCT roots without start_buffer: push_buffer_alignment, create_struct,
        create_buffer(.., align, is_nested), pop_buffer_alignment - alignments 8..256, above and below what the parent has seen so far, one
        or two nested buffers per parent, the parent at top level or itself a nested buffer. The model has no push / pop operation: it runs
        the same script without the two calls (set_min_align only ever raises min_align, so the bracket must not change bytes or the reported
        alignment). On the implementation's bytes: the parent reports at least the nested alignment, the nested data starts at a multiple of
        it, and the independent decoder (synthetic schema with nested struct fields, start aligned to the REPORTED alignment only) returns the values."""
        ctx = self.ctx
        recs = []
        for i in range(count):
            cl, ws = rng.choice([0, 1]), rng.choice([0, 2])
            nn = rng.choice([1, 1, 2])
            als = [rng.choice([8, 16, 32, 64, 128, 256]) for _ in range(nn)]
            inner = i % 3 == 2                       # the parent is itself a nested buffer (start_buffer .. end_buffer) of a top-level table
            ops = ['X:%d:0:-' % cl, 'B:-:0:%d' % ws]
            if inner: ops.append('B:-:0:0')
            seen = rng.choice([0, 0, 8])             # something the parent has seen before the bracket
            reg, fields, vals = 0, [], []
            if seen:
                v = bytes(rng.randrange(256) for _ in range(8)); ops.append('V:c:8:8:536870911:1:' + v.hex()); sreg = reg; reg += 1
            nregs = []
            for al in als:
                size = al * rng.choice([1, 1, 2]) if al <= 64 else al
                data = bytes(rng.randrange(1, 256) for _ in range(size))
                ident = rng.choice(['-', '4e535452'])
                ops += ['P', 'R:c:%d:%s' % (al, data.hex()), 'C:%s:0:%d:%d:1' % (ident, reg, al), 'Q']
                nregs.append(reg + 1); reg += 2
                fields.append('ns:%d:%d' % (size, al)); vals.append('n(b%s)' % data.hex())
            tail = rng.randrange(1 << 32).to_bytes(4, 'little')
            ops.append('Ts:%d' % (nn + 2))
            for k, r in enumerate(nregs): ops.append('To:%d:%d' % (k, r))
            ops.append('Ti:a:%d:4:4:%s' % (nn, tail.hex()))
            if seen: ops.append('To:%d:%d' % (nn + 1, sreg))
            ops.append('Te'); troot = reg; reg += 1
            ops.append('E:%d' % troot); reg += 1
            tdesc = ';'.join(['%d,0,%s' % (k, f) for k, f in enumerate(fields)] + ['%d,0,s:4:4' % nn] + (['%d,0,v:8:8:536870911' % (nn + 1)] if seen else []))
            texp = 't{' + ';'.join(['%d=%s' % (k, v) for k, v in enumerate(vals)] + ['%d=b%s' % (nn, tail.hex())] + (['%d=v[%s]' % (nn + 1, v.hex())] if seen else [])) + '}'
            if inner:
                ops += ['Ts:1', 'To:0:%d' % (reg - 1), 'Te', 'E:%d' % reg]
                desc, root, exp = tdesc + '|0,0,nt:4:0#-', 1, 't{0=n(%s)}' % texp
            else:
                desc, root, exp = tdesc + '#-', 0, texp
            ops = ' '.join(ops)
            recs.append({'h': 'build ' + ops, 'm': 'run ' + self._model_ops(' '.join(t for t in ops.split() if t not in ('P', 'Q'))), 'desc': desc, 'root': root, 'exp': exp,
                         'ws': 1 if ws else 0, 'als': als, 'inner': inner})
        hres = lib.run_harness_resilient(self.H, [r['h'] for r in recs])
        mres = ctx.run_model('builder', [r['m'] for r in recs])
        dl, dm = [], []
        for r, hr, mr in zip(recs, hres, mres):
            ctx.count(r['h'], klass='build:push-pop-buffer-alignment')
            r['hr'], r['mr'], r['hi'] = hr, mr, parse_reply(hr)
            if r['hi'] is not None:
                r['dec'] = 'dec %s t:%d %d 5 %d %s' % (r['desc'], r['root'], r['ws'], r['hi']['align'], r['hi']['raw'].hex())
                dl.append(r['dec']); dm.append(r)
        for r, d in zip(dm, ctx.run_model('builder', dl) if dl else []): r['d'] = d
        for r in recs:
            base = {'harness_line': r['h'], 'model_line': r['m'], 'impl': r['hr'][:1500], 'model': r['mr'][:1500]}
            what = 'nested struct root(s) aligned %s built with push_buffer_alignment / create_struct / create_buffer(is_nested) / pop_buffer_alignment%s' % (
                ', '.join(map(str, r['als'])), ' inside a nested parent' if r['inner'] else '')
            if r['hr'].startswith('CRASH'):
                ctx.violation('crash:' + self.crash_key(r['hr']), 'the builder crashes (sanitizer) on %s: %s' % (what, r['hr'][:300]), base)
            elif r['hi'] is None:
                ctx.violation('build-failed:push-pop-buffer-alignment', 'a builder call fails on %s: %s' % (what, r['hr'][:200]), base)
            elif r['hi']['align'] % max(r['als']):
                ctx.violation('parent-alignment-too-small:push-pop', '%s: the finished parent reports alignment %d, its nested content needs %d' % (what, r['hi']['align'], max(r['als'])),
                              dict(base, dec_line=r['dec']))
            elif r.get('d') != r['exp']:
                ctx.violation('nested-misaligned:push-pop', '%s: placed at a start aligned to the reported alignment %d only, the buffer does not decode to what was built (independent decoder: %s)'
                              % (what, r['hi']['align'], r.get('d', '')[:60]), dict(base, dec_line=r['dec'], expected=r['exp'][:300]))
            elif r['hr'] != r['mr']:
                ctx.violation('corr:build:push-pop-buffer-alignment', 'the push / pop bracket changes what is built: model (same script without the two calls) and implementation disagree on %s' % what, base)
        return len(recs)

    # ------------------------------------------------------------------ classification helpers
    @staticmethod
    def crash_key(rep):
        if 'misaligned address' in rep:
            return 'ubsan:misaligned-access'        # one key whatever generated accessor / dump function trips over it
        m = re.search(r'#0 0x[0-9a-f]+ in (\w+)', rep) or re.search(r'in (\w+) ', rep)
        kind = 'asan'
        m2 = re.search(r'AddressSanitizer: ([\w-]+)', rep)
        if m2: kind = m2.group(1)
        elif 'runtime error' in rep: kind = 'ubsan'
        elif 'Assertion' in rep: kind = 'assert'
        return '%s:%s' % (kind, m.group(1) if m else 'unknown')


def replay(E, ctx):
    """bin/check Cxx --replay file: re-run the recorded input (build script through implementation and model, recorded verify /
    dump / decode lines) and report whether it still fails."""
    import json
    rep = json.load(open(ctx.replay_in))
    name = rep.get('schema')
    hl, ml = rep.get('harness_line'), rep.get('model_line')
    key = rep.get('key', 'replay')
    still = []
    if hl:
        gen = any(t.startswith('G') for t in hl.split()[1:])
        H = E.HG.get(name) if gen else E.H
        if gen and name == 'bnest' and key == 'generated-builder-misaligned-struct-access': H = E.HP.get(name, H)
        res = lib.run_harness_resilient(H, [hl])[0]
        ctx.log('replay implementation:', res[:700])
        if res.startswith('CRASH') or res.startswith('FAIL'): still.append('implementation: ' + res[:200])
        if ml:
            m = ctx.run_model('builder', [ml])[0]
            if hl.startswith('buildd ') and m.startswith('OK '): m = re.sub(r' emits=\S+', ' emits=-', m)
            ctx.log('replay model         :', m[:700])
            if not gen and parse_reply(res) and parse_reply(m) and res != m: still.append('implementation and (corrected) model differ')
            if not gen and parse_reply(res) and m.startswith('FAIL'): still.append('implementation succeeds where the (corrected) model refuses')
    for k in ('verify_line', 'dump_line'):
        if rep.get(k) and name in E.BC and len(rep[k].split()) > 3:
            r = E.run_bc(name, [rep[k]])[0]
            ctx.log('replay %s:' % k, r[:300])
            if k == 'verify_line' and not r.startswith('0 ') and 'accepts' not in key: still.append('verifier: ' + r[:100])
    if rep.get('dec_line'):
        r = ctx.run_model('builder', [rep['dec_line']])[0]
        ctx.log('replay independent decoder:', r[:300])
        if r == 'NONE': still.append('independent decoder rejects')
    ctx.count(str(rep.get('key')), klass='replay')
    if still:
        ctx.violation(key, 'replayed input still fails: ' + '; '.join(still), rep)
    else:
        ctx.log('replayed input no longer fails')
