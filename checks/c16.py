"""C16 - In-place sort orders, find finds, scan scans.

1. Re-check Properties_C16.vo (theorems about coq/Sort/SortModel.v: heap sort permutes and sorts for every length and
   every total-preorder key comparison, the offset swap keeps every slot's target, find returns the lowest match, scan/rscan
   the first/last match of any clamped range).
2. Correspondence: the extracted model (modelrun_sort) against the code the CURRENT flatcc generates for
   harness/sort_diff.fbs (reader + builder + verifier + sorter), driven by harness/sort_diff.c under ASan/UBSan:
   exact resulting element order (heap sort is deterministic; elements carry a payload / object identity), exact stored
   uoffsets after the sort, every find / scan / rscan return value.
3. Independently of the model the property statement is evaluated in python on what the implementation did: permutation,
   non-decreasing keys, targets of offset vectors preserved, no byte outside the vector changed, buffer verifies before and
   after, find = lowest index or not_found, scan/rscan = first/last index in [begin, min(end,len)) or not_found.
4. Recursive sorter: runtime scenarios on the fixed schema (sorted vectors sorted, every other vector untouched, nested / union /
   union-vector / recursive members reached) and the text of the generated T_sort for random schemas against the
   expectation computed from the schema AST; the generated headers must compile.
"""
import os, re, struct, itertools, json
from . import lib
from . import c16_util as U
from . import c16_reach
from . import c16_keys

NF = U.NF
INT_KINDS = {'u8': (0, 2 ** 8 - 1), 'i8': (-2 ** 7, 2 ** 7 - 1), 'u16': (0, 2 ** 16 - 1), 'i16': (-2 ** 15, 2 ** 15 - 1),
             'u32': (0, 2 ** 32 - 1), 'i32': (-2 ** 31, 2 ** 31 - 1), 'u64': (0, 2 ** 64 - 1), 'i64': (-2 ** 63, 2 ** 63 - 1),
             'bool': (0, 1), 'e16': (-2 ** 15, 2 ** 15 - 1),
             'st1': (0, 2 ** 8 - 1), 'st2': (-2 ** 15, 2 ** 15 - 1)}      # st1/st2: keyed structs of 1 / 2 bytes (key only)
# keyed structs with payload members: kind -> range of the key k (ks: 8 bytes; stN: N bytes, N not a multiple of 4)
KS_LIKE = {'ks': 'i32', 'st3': 'u8', 'st5': 'u8', 'st6': 'i16', 'st10': 'i16'}
P_KINDS = ('ks', 'ks2', 'kt', 'kstr', 'mk')      # kinds whose payload field p can be scanned
FLOAT_KINDS = {'f32': 4, 'f64': 8}
OFFSET_KINDS = ('str', 'kt', 'kstr', 'mk')


def b2f(bits, w):
    return struct.unpack('<f', struct.pack('<I', bits))[0] if w == 4 else struct.unpack('<d', struct.pack('<Q', bits))[0]


def fhex(bits, w):
    return ('%08x' if w == 4 else '%016x') % bits


def hx(b):
    return bytes(b).hex() if len(b) else '-'


# ---------------------------------------------------------------------------------------------------------------------
# A test case: one vector, one sort operation, queries. Fields are described by "views": for a field name the list of keys
# (python values), the key type ('z' ints / 'f' floats / 's' bytes) used by model lines and oracle.
DEFAULT_FIELD = dict({'ks2': 'k64', 'kt': 'k', 'kstr': 'name', 'mk': 'c'}, **{k: 'k' for k in KS_LIKE})


class Case:
    def __init__(self, klass, kind, sortop, elems, queries=(), full=False, shared=None, last=False):
        self.klass, self.kind, self.sortop, self.elems, self.queries, self.full = klass, kind, sortop, (None if elems is None else list(elems)), list(queries), full
        self.last = last                    # offset kinds: objects created first = placed last in the buffer
        self.shared = shared or {}          # index -> earlier index whose object it shares (offset kinds)

    # ---- identity / payload of element i as the harness reports it
    def ident(self, i):
        while i in self.shared: i = self.shared[i]
        return i

    # ---- field views
    def sort_field(self):
        if self.sortop in ('sort', 'rsort'):
            return DEFAULT_FIELD.get(self.kind, '-')
        if self.sortop.startswith('sort_by_'): return '-' if self.kind in ('st1', 'st2') else self.sortop[8:]
        return None

    def default_field(self):
        return DEFAULT_FIELD.get(self.kind, '-')

    def field_type(self, field):
        k = self.kind
        if field == '-': field = self.default_field()
        if k in INT_KINDS: return 'z'
        if k in FLOAT_KINDS: return 'f' + str(FLOAT_KINDS[k])
        if k == 'str': return 's'
        if k in KS_LIKE: return 'z'
        if k == 'ks2': return {'k8': 'z', 'kd': 'f8', 'k64': 'z', 'p': 'z'}[field]
        if k == 'kt': return 'z'
        if k == 'kstr': return {'name': 's', 'p': 'z'}[field]
        if k == 'mk': return {'a': 'z', 'b': 'z', 's': 's', 'c': 'z', 'd': 'f4', 'p': 'z'}[field]

    def key_of(self, i, field):
        """python key of ORIGINAL element i for a field ('p' = payload)."""
        k = self.kind; e = self.elems[self.ident(i)]
        if field == '-': field = self.default_field()
        if field == 'p': return self.ident(i)
        if k in INT_KINDS or k in FLOAT_KINDS or k in KS_LIKE or k in ('str', 'kt', 'kstr'): return e
        if k == 'ks2': return e[{'k8': 0, 'kd': 1, 'k64': 2}[field]]
        if k == 'mk': return e[{'a': 0, 'b': 1, 's': 2, 'c': 3, 'd': 4}[field]]

    def n(self):
        return len(self.elems) if self.elems is not None else 0

    # ---- harness line
    def elem_tok(self, i):
        if i in self.shared: return '@%d' % self.shared[i]
        k = self.kind; e = self.elems[i]
        if k in INT_KINDS or k in KS_LIKE or k == 'kt': return str(e)
        if k in FLOAT_KINDS: return fhex(e, FLOAT_KINDS[k])
        if k in ('str', 'kstr'): return hx(e)
        if k == 'ks2': return '%d/%s/%d' % (e[0], fhex(e[1], 8), e[2])
        if k == 'mk': return '%d/%d/%s/%d/%s' % (e[0], e[1], hx(e[2]), e[3], fhex(e[4], 4))

    def key_tok(self, field, key):
        t = self.field_type(field)
        if t == 'z': return str(key)
        if t[0] == 'f': return fhex(key, int(t[1]))
        return hx(key)

    def hline(self):
        if self.elems is None: el = 'n'
        elif not self.elems: el = 'e'
        else: el = ','.join(self.elem_tok(i) for i in range(len(self.elems)))
        qs = ';'.join('%s,%s,%s,%d,%d,%s' % (op, f, m, b, e, self.key_tok(f, key)) for (op, f, m, b, e, key) in self.queries) or '-'
        return 'V %s %s%s %s %s %s' % (self.kind, 'f' if self.full else 'c', 'l' if self.last else '', self.sortop, el, qs)


def float_rank(bits_list, w):
    """order-preserving integer embedding of the (non-NaN) floats occurring in a case: -0.0 and 0.0 get the same rank."""
    vals = sorted(set(b2f(b, w) + 0.0 for b in bits_list))
    # -0.0 + 0.0 == 0.0 so both zero patterns map to the same value
    return {v: i for i, v in enumerate(vals)}


def model_key(case, t, key, ranks):
    if t == 'z': return str(key)
    if t[0] == 'f': return str(ranks[t][b2f(key, int(t[1])) + 0.0])
    return hx(key)


def py_cmp(t):
    if t == 'z': return U.num_cmp
    if t[0] == 'f': return lambda a, b: U.num_cmp(b2f(a, int(t[1])), b2f(b, int(t[1])))
    return U.str_n_cmp


def py_eq(t, mode, key):
    if t == 'z': return lambda v: v == key
    if t[0] == 'f':
        w = int(t[1]); kf = b2f(key, w)
        return lambda v: b2f(v, w) == kf
    if mode == 'c': return lambda v: U.c_str(v) == U.c_str(key)
    return lambda v: U.str_n_cmp(v, key) == 0


# ---------------------------------------------------------------------------------------------------------------------
def gen_values(rng, kind_t, n, lohi=None, style=None):
    """n keys of type kind_t ('z' with range lohi, 'f4'/'f8', 's')."""
    style = style or rng.choice(['small', 'small', 'bound', 'full', 'mixed'])
    out = []
    if kind_t == 'z':
        lo, hi = lohi
        small = [v for v in (lo, lo + 1, -1, 0, 1, 2, hi - 1, hi) if lo <= v <= hi]
        alpha = rng.sample(small, min(len(small), rng.choice([1, 2, 3, 4])))
        for _ in range(n):
            s = style if style != 'mixed' else rng.choice(['small', 'bound', 'full'])
            if s == 'small': out.append(rng.choice(alpha))
            elif s == 'bound': out.append(rng.choice(small))
            else: out.append(rng.randint(lo, hi))
        return out
    if kind_t[0] == 'f':
        w = int(kind_t[1])
        if w == 4: specials = [0x00000000, 0x80000000, 0x3f800000, 0xbf800000, 0x7f800000, 0xff800000, 0x00000001, 0x80000001, 0x7f7fffff, 0xff7fffff, 0x40490fdb]
        else: specials = [0, 1 << 63, 0x3ff0000000000000, 0xbff0000000000000, 0x7ff0000000000000, 0xfff0000000000000, 1, (1 << 63) | 1,
                          0x7fefffffffffffff, 0xffefffffffffffff, 0x400921fb54442d18]
        alpha = rng.sample(specials, rng.choice([2, 3, 4]))
        for _ in range(n):
            s = style if style != 'mixed' else rng.choice(['small', 'bound', 'full'])
            if s == 'small': out.append(rng.choice(alpha))
            elif s == 'bound': out.append(rng.choice(specials))
            else:
                while True:
                    b = rng.getrandbits(8 * w)
                    x = b2f(b, w)
                    if x == x: break      # no NaN (not a total order: excluded by the property's domain)
                out.append(b)
        return out
    # strings: prefixes of one another, high bytes, empty, (rarely) embedded NUL
    base = bytes(rng.choice([0x61, 0x62, 0x7f, 0x80, 0xff, 0x01, 0xc3, 0xa9]) for _ in range(rng.randint(1, 12)))
    alpha = [b'', base[:1], base[:2], base, base + b'\xff', base + b'\x01', base[:1] + b'\x80', b'\xff', b'\x80\x80', b'a', b'ab', b'abc', b'b']
    nul = [b'a\0b', b'a\0', b'\0', b'a\0c', b'ab\0']
    pick = rng.sample(alpha, rng.choice([2, 3, 4, 6]))
    for _ in range(n):
        s = style if style != 'mixed' else rng.choice(['small', 'bound', 'full'])
        if s == 'small': out.append(rng.choice(pick))
        elif s == 'bound': out.append(rng.choice(alpha))
        elif s == 'nul': out.append(rng.choice(alpha + nul))
        else: out.append(bytes(rng.randint(1, 255) for _ in range(rng.randint(0, 9))))
    return out


def gen_elems(rng, kind, n, style=None):
    if kind in INT_KINDS: return gen_values(rng, 'z', n, INT_KINDS[kind], style)
    if kind in FLOAT_KINDS: return gen_values(rng, 'f%d' % FLOAT_KINDS[kind], n, None, style)
    if kind in ('str', 'kstr'): return gen_values(rng, 's', n, None, style)
    if kind in KS_LIKE: return gen_values(rng, 'z', n, INT_KINDS[KS_LIKE[kind]], style)
    if kind == 'kt': return gen_values(rng, 'z', n, INT_KINDS['i64'], style)
    if kind == 'ks2':
        return list(zip(gen_values(rng, 'z', n, INT_KINDS['u8'], style), gen_values(rng, 'f8', n, None, style), gen_values(rng, 'z', n, INT_KINDS['u64'], style)))
    if kind == 'mk':
        return list(zip(gen_values(rng, 'z', n, INT_KINDS['u8'], style), gen_values(rng, 'z', n, INT_KINDS['i16'], style), gen_values(rng, 's', n, None, style),
                        gen_values(rng, 'z', n, INT_KINDS['u64'], style), gen_values(rng, 'f4', n, None, style)))


FIELDS = {'ks': ['k'], 'ks2': ['k8', 'kd', 'k64'], 'kt': ['k'], 'kstr': ['name'], 'mk': ['a', 'b', 's', 'c', 'd'],
          'st1': ['k'], 'st2': ['k'], 'st3': ['k'], 'st5': ['k'], 'st6': ['k'], 'st10': ['k']}
RANGE_OF = {('st3', 'k'): 'u8', ('st5', 'k'): 'u8', ('st6', 'k'): 'i16', ('st10', 'k'): 'i16', ('ks', 'k'): 'i32', ('ks2', 'k8'): 'u8', ('ks2', 'k64'): 'u64', ('kt', 'k'): 'i64', ('mk', 'a'): 'u8', ('mk', 'b'): 'i16', ('mk', 'c'): 'u64'}


def absent_key(rng, case, field):
    t = case.field_type(field)
    present = [case.key_of(i, field) for i in range(case.n())]
    if t == 'z':
        kind = case.kind if case.kind in INT_KINDS else RANGE_OF.get((case.kind, case.default_field() if field == '-' else field), 'u32')
        lo, hi = INT_KINDS[kind]
        cands = [v for v in (lo, hi, 0, 1, -1, 3) if lo <= v <= hi] + [rng.randint(lo, hi) for _ in range(3)]
        if present: cands += [v for v in (rng.choice(present) + 1, rng.choice(present) - 1) if lo <= v <= hi]
        return rng.choice(cands)
    if t[0] == 'f':
        return gen_values(rng, t, 1, None, 'bound')[0]
    cands = [b'', b'zz', b'a', b'\xff\xff']
    if present:
        p = rng.choice(present)
        cands += [p + b'\x01', p[:-1], p + b'a']
    return U.c_str(rng.choice(cands))


def gen_queries(rng, case, fields, nq, after_sort_field):
    """find only on the field the vector is sorted by; scans on any field incl. payload."""
    qs = []
    n = case.n()
    for _ in range(nq):
        field = rng.choice(fields)
        t = case.field_type(field)
        real = case.default_field() if field == '-' else field
        if case.kind in ('st1', 'st2') and real == 'k': real = '-'
        if n and rng.random() < 0.7: key = case.key_of(rng.randrange(n), field)
        else: key = absent_key(rng, case, field)
        mode = '-'
        if t == 's':
            mode = rng.choice(['c', 'n', 'n'])
            if mode == 'c': key = U.c_str(key)
            elif rng.random() < 0.4:
                # explicit-length key LONGER than a stored string: stored bytes + NULs / other bytes, n = len+1, len+8, 4096
                pad = rng.choice([1, 8, 4096 - len(key) if len(key) < 4096 else 1])
                key = key + (b'\0' * pad if rng.random() < 0.7 else bytes(rng.choice([0, 0, 1, 0x61]) for _ in range(pad)))
        ops = ['scan', 'rscan', 'scanx', 'rscanx']
        if real == after_sort_field and real != 'p':
            # strcmp-find is only meaningful when no stored string has an embedded NUL (then it orders like the sort)
            if not (t == 's' and mode == 'c' and any(0 in case.key_of(i, field) for i in range(n))):
                ops += ['find', 'find']
        op = rng.choice(ops)
        b = e = 0
        if op.endswith('x'):
            bs = [0, 1, n // 2, max(n - 1, 0), n, n + 1, 2 ** 32, NF - 1, NF]
            b = rng.choice(bs + [rng.randint(0, n + 1)]); e = rng.choice(bs + [rng.randint(0, n + 1)])
        qs.append((op, field, mode, b, e, key))
    return qs


# ---------------------------------------------------------------------------------------------------------------------
def run(ctx):
    rng = ctx.rng
    ok = U.check_theorems(ctx)
    if not ok:
        ctx.broken_obligation('Properties_C16.vo', getattr(ctx, 'broken', {}))

    # ---- implementation side from the current tree
    gdir = os.path.join(ctx.bdir, 'gen'); os.makedirs(gdir, exist_ok=True)
    fbs = os.path.join(lib.ROOT, 'harness', 'sort_diff.fbs')
    rc, out = ctx.gen(fbs, gdir, opts=('-a',))
    if rc != 0: raise lib.BuildFailure('flatcc -a harness/sort_diff.fbs', out)
    objs = ctx.rt_objs(san=True, srcs=['src/runtime/builder.c', 'src/runtime/emitter.c', 'src/runtime/refmap.c', 'src/runtime/verifier.c'])
    exe = ctx.cc([os.path.join(lib.ROOT, 'harness', 'sort_diff.c')] + objs, os.path.join(ctx.bdir, 'sort_diff'), san=True,
                 incs=['-I' + gdir, '-I' + os.path.join(lib.ROOT, 'harness')])
    H = lib.Harness(exe)
    ctx.log('harness built')

    def plain_harness():
        # the same harness without sanitizers: lines that abort under ASan/UBSan are re-run on it so that the functional
        # consequence (unsorted / torn / wrong index) is classified as well
        if getattr(ctx, 'c16_plain', None) is None:
            o2 = ctx.rt_objs(san=False, srcs=['src/runtime/builder.c', 'src/runtime/emitter.c', 'src/runtime/refmap.c', 'src/runtime/verifier.c'])
            e2 = ctx.cc([os.path.join(lib.ROOT, 'harness', 'sort_diff.c')] + o2, os.path.join(ctx.bdir, 'sort_diff_plain'), san=False,
                        defs=['-DNDEBUG'], incs=['-I' + gdir, '-I' + os.path.join(lib.ROOT, 'harness')])
            ctx.c16_plain = lib.Harness(e2)
        return ctx.c16_plain
    ctx.c16_plain_harness = plain_harness

    if ctx.replay_in:
        rep = json.load(open(ctx.replay_in))
        if 'harness_line' in rep and rep['harness_line'].startswith('V '):
            ctx.log('replay:', rep['harness_line'][:200])
            evaluate_vectors(ctx, H, [case_from_line(rep['harness_line'])])
        elif 'harness_line' in rep:
            r = lib.run_harness_resilient(H, [rep['harness_line']])[0]
            ctx.log('replay reply:', r[:2000])
            ctx.count(rep['harness_line'], klass='replay')
            if rep.get('expected') is not None and rep.get('field') and rep['expected'] not in r.split(' '):
                ctx.violation(rep['key'], 'replay: field %s still differs from `%s`' % (rep['field'], rep['expected'][:200]), {'harness_line': rep['harness_line'], 'reply': r[:2000]})
        if 'schema' in rep and str(rep.get('key', '')).startswith('default-key:'):
            c16_keys.replay(ctx, rep)
        elif 'schema' in rep and 'reach_depth' in rep:
            ctx.count(rep['schema'], klass='replay')
            c16_reach.replay(ctx, rep)
        elif 'schema' in rep:
            ctx.count(rep['schema'], klass='replay')
            r = check_schema_text(ctx, rep['schema'], 'replay', None, None if rep.get('feature') in (None, 'none') else rep['feature'])
            if r: ctx.violation(r[0], r[1], {'schema': rep['schema'], 'feature': rep.get('feature')})
        ctx.finish_args = dict(rule='replay', explanation='replay of one recorded input')
        return

    cases = []
    # (1) exhaustive: every sequence over a 4-symbol alphabet
    maxlen = 8 if ctx.thorough else 7
    ex_kinds = [('ks', [-1, 0, 1, 7]), ('kt', [-2 ** 63, -1, 0, 2 ** 63 - 1])] if not ctx.thorough else \
               [('ks', [-1, 0, 1, 7]), ('kt', [-2 ** 63, -1, 0, 2 ** 63 - 1]), ('str', [b'', b'a', b'ab', b'a\xff']), ('u8', [0, 1, 2, 255]),
                ('kstr', [b'', b'\x80', b'\x80\x80', b'a']), ('f64', [1 << 63, 0, 0x3ff0000000000000, 0xfff0000000000000])]
    for kind, alpha in ex_kinds:
        lim = maxlen if kind in ('ks', 'kt', 'str', 'u8') else 7
        if not ctx.thorough and kind == 'kt': lim = 6
        for n in range(0, lim + 1):
            for seq in itertools.product(alpha, repeat=n):
                c = Case('exhaustive_%s' % kind, kind, 'sort', list(seq))
                mode = 'n' if c.field_type('-') == 's' else '-'
                c.queries = [('find', '-', mode, 0, 0, a) for a in alpha]
                absent = {'ks': 3, 'kt': 5, 'str': b'b', 'u8': 7, 'kstr': b'b', 'f64': 0x4000000000000000}[kind]
                c.queries.append(('find', '-', mode, 0, 0, absent))
                cases.append(c)
    # (1b) keyed structs whose size is not a multiple of 4: whole-element identity through the redundant payload members
    st_len = 7 if ctx.thorough else 5
    for kind, alpha in (('st1', [0, 1, 2, 255]), ('st2', [-32768, -1, 0, 32767]), ('st3', [0, 1, 2, 255]), ('st5', [0, 1, 2, 255]),
                        ('st6', [-32768, -1, 0, 32767]), ('st10', [-32768, -1, 0, 32767])):
        for n in range(0, st_len + 1):
            for seq in itertools.product(alpha, repeat=n):
                c = Case('exhaustive_%s' % kind, kind, 'sort_by_k' if n % 2 else 'sort', list(seq))
                c.queries = [('find', '-', '-', 0, 0, a) for a in alpha] + [('find', 'k', '-', 0, 0, 7)]
                cases.append(c)
    # (2) all (begin, end) pairs on unsorted short vectors
    pairs_len = 6 if ctx.thorough else 5
    for kind, alpha in ([('i32', [5, -3, 5, 9]), ('str', [b'a', b'ab', b'a', b''])] if not ctx.thorough else
                        [('i32', [5, -3, 5, 9]), ('str', [b'a', b'ab', b'a', b'']), ('kt', [1, 2, 1, 3]), ('ks', [1, 2, 1, 3])]):
        syms = sorted(set(alpha), key=lambda x: (str(type(x)), x))
        for n in range(0, pairs_len + 1):
            for seq in itertools.product(syms, repeat=n):
                if n >= 4 and rng.random() < (0.0 if ctx.thorough else 0.6): continue
                c = Case('all_ranges_%s' % kind, kind, 'none', list(seq))
                bs = list(range(0, n + 2)) + [2 ** 32, NF - 1, NF]
                key = syms[0]
                mode = rng.choice(['c', 'n']) if c.field_type('-') == 's' else '-'
                if mode == 'c': key = syms[-1]      # non-empty symbol
                for b in bs:
                    for e in bs:
                        c.queries.append(('scanx', '-', mode, b, e, key)); c.queries.append(('rscanx', '-', mode, b, e, key))
                c.queries.append(('scan', '-', mode, 0, 0, key)); c.queries.append(('rscan', '-', mode, 0, 0, key))
                cases.append(c)
    # (3) random vectors, every kind, every sort entry point
    all_kinds = list(INT_KINDS) + list(FLOAT_KINDS) + ['str', 'ks', 'ks2', 'kt', 'kstr', 'mk', 'st3', 'st5', 'st6', 'st10']
    lens = [0, 1, 2, 3, 4, 5, 7, 8, 9, 15, 16, 17, 31, 32, 33, 63, 64, 65, 100, 127, 128, 129, 255, 256, 257]
    reps = 150 if ctx.thorough else 14
    for kind in all_kinds:
        sortops = ['sort'] + ['sort_by_' + f for f in FIELDS.get(kind, [])]
        for r in range(reps):
            n = rng.choice(lens) if r else (1000 if kind in ('i32', 'kt', 'str', 'u8', 'mk') else 500)
            if r == 1: n = 0
            style = rng.choice(['small', 'small', 'bound', 'full', 'mixed'] + (['nul'] if kind in ('str', 'kstr', 'mk') and rng.random() < 0.5 else []))
            elems = gen_elems(rng, kind, n, style)
            sortop = rng.choice(sortops) if r > 2 else sortops[r % len(sortops)]
            if r == 5: sortop = 'rsort'
            if r == 6: sortop = 'none'
            shared = {}
            if kind in OFFSET_KINDS and n > 2 and rng.random() < 0.3:
                for _ in range(rng.randint(1, 3)):
                    i = rng.randrange(1, n); j = rng.randrange(0, i)
                    if j not in shared: shared[i] = j
            c = Case('random_%s' % kind, kind, sortop, elems, full=(n <= 40 and rng.random() < 0.5), shared=shared,
                     last=(kind in OFFSET_KINDS and rng.random() < 0.5))
            sf = c.sort_field()
            if kind == 'e16' and sortop == 'rsort': sf = None      # u_e16 is not marked sorted: S_Root_sort must leave it alone
            fields = ['-'] + FIELDS.get(kind, []) + (['p'] if kind in P_KINDS else [])
            c.queries = gen_queries(rng, c, fields, 12 if n <= 300 else 6, sf)
            cases.append(c)
        cases.append(Case('absent_%s' % kind, kind, 'sort', None, queries=[]))
        ca = Case('absent_%s' % kind, kind, 'rsort', None)
        cases.append(ca)
    # (3b) strings at the very END of the exact-size block (objects created first are placed last; element 0 is the last object and its
    #      length 3 mod 4 makes its terminator the last byte): explicit-length keys LONGER than the stored string must not make
    #      the comparison read the stored string past its terminator (ASan), and must compare as "stored is a proper prefix"
    for kind in ('str', 'kstr', 'mk'):
        for tail in (b'abc', b'abcdefg', b'\xff\x80\x01', b'abcdefghijk'):
            for sortop in ('none', 'sort' if kind != 'mk' else 'sort_by_s'):
                others = gen_values(rng, 's', rng.choice([0, 1, 3, 6]), None, 'small')
                strs = [tail] + others
                elems = strs if kind != 'mk' else [(i % 3, -i, s_, 5 * i, 0x3f800000) for i, s_ in enumerate(strs)]
                c = Case('string_tail_%s' % kind, kind, sortop, elems, full=(rng.random() < 0.3), last=True)
                f = 's' if kind == 'mk' else '-'
                qs = []
                for st in [tail] + others[:2]:
                    for pad in (1, 8, 4096 - len(st)):
                        for fill in (b'\0', b'\1'):
                            key = st + fill * pad
                            ops = ['scan', 'rscan', 'scanx', 'rscanx'] + (['find'] if sortop != 'none' else [])
                            op = rng.choice(ops)
                            qs.append((op, f, 'n', 0, NF if op.endswith('x') else 0, key))
                    qs.append(('scan', f, 'n', 0, 0, st)); qs.append(('rscan', f, 'n', 0, 0, st))
                c.queries = qs
                cases.append(c)
    for c in cases:
        if c.elems is None:
            # queries on an absent vector: everything is not_found
            f0 = '-'
            t = c.field_type(f0)
            key = {'z': 0, 'f4': 0, 'f8': 0, 's': b'a'}[t]
            mode = 'c' if t == 's' else '-'
            c.queries = [('find', f0, mode, 0, 0, key), ('scan', f0, mode, 0, 0, key), ('rscan', f0, mode, 0, 0, key),
                         ('scanx', f0, mode, 0, NF, key), ('rscanx', f0, mode, 0, NF, key)]

    evaluate_vectors(ctx, H, cases)

    # ---- (4) recursive sorter: runtime scenarios
    run_recursive(ctx, H)
    # ---- (5) generated sorter text for random schemas
    run_schemas(ctx)
    # ---- (6) reachability of sorted vectors through every kind of edge: generated schemas + generated programs
    c16_reach.run(ctx)
    # ---- (7) which key field the default sort / find / scan use (primary_key vs. lowest-id key), ambiguous schemas rejected
    c16_keys.run(ctx)

    ctx.trusted = lib.DEFAULT_TRUSTED + ['python oracles in checks/c16_util.py (key order, first/last match, expected sorter calls from the schema AST)']
    ctx.assumptions = ['little-endian host, 64-bit size_t (no size_t wrap for vector lengths below 2^32), 32-bit uoffset_t (static assert in the harness)',
                       'float keys are not NaN (NaN is not totally ordered; excluded by the property)',
                       'keyed tables in sorted vectors have their string key present (strcmp / strlen of a null key is not modelled)',
                       'strncmp / strcmp of the C library return the sign of the first differing unsigned byte']
    ctx.finish_args = dict(
        rule='cases: exhaustive sequences over 4 symbols (quick: length<=7 keyed structs, <=6 keyed tables; thorough: length<=8 for structs, tables, strings, ubyte, <=7 keyed-by-string tables and doubles), '
             'all (begin,end) pairs incl. begin>=end, end>len, 2^32, SIZE_MAX-1 and the end sentinel on every short sequence, random vectors of length 0..1000 for every scalar type, '
             'enum, strings, keyed structs and keyed tables with every key field / sort_by entry point / S_Root_sort, shared objects in offset vectors, absent and empty vectors; '
             'recursive-sorter scenarios; generated T_sort text of random schemas. distinct = distinct harness request lines; every line reaches the generated code',
        explanation='theorems of Properties_C16 re-checked; extracted model compared with the generated code on exact element order, stored offsets and every '
                    'find/scan/rscan value; the property statement (permutation, order, frame, verifier, lowest / first / last index) evaluated independently in python')


def case_from_line(line):
    """rebuild a Case from a harness request line (replays)."""
    _, kind, cf, sortop, el, qs = line.split(' ')
    shared, elems = {}, []
    if el == 'n': elems = None
    elif el != 'e':
        for i, tok in enumerate(el.split(',')):
            if tok.startswith('@'):
                shared[i] = int(tok[1:]); elems.append(None); continue
            if kind in INT_KINDS or kind in KS_LIKE or kind == 'kt': elems.append(int(tok))
            elif kind in FLOAT_KINDS: elems.append(int(tok, 16))
            elif kind in ('str', 'kstr'): elems.append(b'' if tok == '-' else bytes.fromhex(tok))
            elif kind == 'ks2':
                a, b_, c_ = tok.split('/'); elems.append((int(a), int(b_, 16), int(c_)))
            elif kind == 'mk':
                a, b_, s_, c_, d_ = tok.split('/'); elems.append((int(a), int(b_), b'' if s_ == '-' else bytes.fromhex(s_), int(c_), int(d_, 16)))
    c = Case('replay', kind, sortop, elems, full=(cf[0] == 'f'), shared=shared, last=('l' in cf))
    if qs != '-':
        for q in qs.split(';'):
            op, f, m, b_, e_, key = q.split(',')
            t = c.field_type(f)
            k = int(key) if t == 'z' else (int(key, 16) if t[0] == 'f' else (b'' if key == '-' else bytes.fromhex(key)))
            c.queries.append((op, f, m, int(b_), int(e_), k))
    return c


def evaluate_vectors(ctx, H, cases):
    ctx.log('%d vector cases generated' % len(cases))
    hl = [c.hline() for c in cases]
    replies = lib.run_harness_resilient(H, hl)
    crashed = [i for i, r in enumerate(replies) if r.startswith('CRASH')]
    if crashed:
        for i in crashed:
            if 'too many crashes' not in replies[i]:
                c = cases[i]
                ctx.violation('crash:%s:%s' % (c.kind, c.sortop.split('_by_')[0]), 'sanitizer / assertion failure in generated sort/find/scan code: ' + replies[i][:300],
                              {'harness_line': hl[i][:20000], 'reply': replies[i][:3000]})
        ctx.log('%d line(s) aborted under the sanitizers: re-running them without sanitizers for the functional verdict' % len(crashed))
        r2 = lib.run_harness_resilient(ctx.c16_plain_harness(), [hl[i] for i in crashed])
        for i, r in zip(crashed, r2):
            replies[i] = r if not r.startswith('CRASH') else 'CRASHED-TWICE ' + r
    ctx.log('harness done')

    # ---- model lines
    mlines, mref = [], []       # mref: (case index, what, extra)
    parsed = []
    for ci, (c, rep) in enumerate(zip(cases, replies)):
        ctx.count(hl[ci], klass=c.klass)
        p = parse_reply(c, rep)
        parsed.append(p)
        if p is None: continue
        n = c.n()
        ranks = {}
        for t in ('f4', 'f8'):
            bits = []
            for f in FIELDS.get(c.kind, []) + ['-']:
                if c.field_type(f) == t:
                    bits += [c.key_of(i, f) for i in range(n)] + [q[5] for q in c.queries if q[1] == f or (q[1] == '-' and f == c.default_field())]
            if c.kind in FLOAT_KINDS and t == 'f%d' % FLOAT_KINDS[c.kind]:
                bits += [c.key_of(i, '-') for i in range(n)] + [q[5] for q in c.queries]
            if bits: ranks[t] = float_rank(bits, int(t[1]))
        c.ranks = ranks
        sf = c.sort_field()
        if c.kind == 'e16' and c.sortop == 'rsort': sf = None
        c.eff_sort_field = sf
        if sf is not None and c.elems is not None:
            t = c.field_type(sf)
            mt = 's' if t == 's' else 'z'
            if c.kind in OFFSET_KINDS:
                # identity of slot i is the object; the model sorts (key, identity)
                el = ','.join('%s:%d' % (model_key(c, t, c.key_of(i, sf), ranks), c.ident(i)) for i in range(n)) or 'e'
            elif c.kind in INT_KINDS:
                el = ','.join('%d:%d' % (v, v) for v in c.elems) or 'e'
            elif c.kind in FLOAT_KINDS:
                el = ','.join('%s:%d' % (model_key(c, t, v, ranks), v) for v in c.elems) or 'e'
            else:
                el = ','.join('%s:%d' % (model_key(c, t, c.key_of(i, sf), ranks), i) for i in range(n)) or 'e'
            mlines.append('sort %s %s' % (mt, el)); mref.append((ci, 'sort', None))
            if c.kind in OFFSET_KINDS and n:
                keys = ','.join(model_key(c, t, c.key_of(i, sf), ranks) for i in range(n))
                mlines.append('sorto %s %s %s' % (mt, ','.join(map(str, p['raw_pre'])), keys)); mref.append((ci, 'sorto', None))
    mres = ctx.run_model('sort', mlines) if mlines else []
    model_order = {}      # case index -> list of identities in model order
    for (ci, what, _), r in zip(mref, mres):
        c = cases[ci]
        if what == 'sort':
            if r == 'e': model_order[ci] = []
            elif r.startswith('NONE') or r.startswith('EXC') or r.startswith('BAD'):
                ctx.violation('model:%s' % c.kind, 'model failed on `%s`: %s' % (mlines[0][:80], r), {'case': hl[ci]})
            else: model_order[ci] = [int(x.rsplit(':', 1)[1]) for x in r.split(',')]
        else:
            c.model_raw = [] if r == 'e' else ([int(x) for x in r.split(',')] if re.match(r'^[0-9,]+$', r) else None)

    # ---- queries through the model: one line per (case, field, string mode)
    qlines, qref = [], []
    for ci, c in enumerate(cases):
        p = parsed[ci]
        if p is None or not c.queries: continue
        n = c.n()
        order = list(range(n))
        if c.eff_sort_field is not None:
            if ci not in model_order: continue
            order = None
        groups = {}
        for qi, q in enumerate(c.queries):
            groups.setdefault(q[1], []).append(qi)
        for field, qis in groups.items():
            t = c.field_type(field); mt = 's' if t == 's' else 'z'
            if order is None:
                # model order is a list of identities (payloads); map back to original indices
                mo = model_order[ci]
                if c.kind in INT_KINDS: keys = [model_key(c, t, v, c.ranks) for v in mo]
                elif c.kind in FLOAT_KINDS: keys = [model_key(c, t, v, c.ranks) for v in mo]
                else: keys = [model_key(c, t, c.key_of(i, field), c.ranks) for i in mo]
            else:
                keys = [model_key(c, t, c.key_of(i, field), c.ranks) for i in range(n)]
            el = ','.join('%s:0' % k for k in keys) or 'e'
            qs = ';'.join('%s,%s,%d,%d,%s' % (c.queries[qi][0], c.queries[qi][2], c.queries[qi][3], c.queries[qi][4],
                                               model_key(c, t, c.queries[qi][5], c.ranks)) for qi in qis)
            qlines.append('q %s %s %s' % (mt, el, qs)); qref.append((ci, qis))
    qres = ctx.run_model('sort', qlines) if qlines else []
    model_q = {}
    for (ci, qis), r in zip(qref, qres):
        vals = r.split(',')
        for qi, v in zip(qis, vals): model_q[(ci, qi)] = v
    ctx.log('model done (%d sort lines, %d query lines)' % (len(mlines), len(qlines)))

    # ---- verdicts
    nq = 0
    for ci, c in enumerate(cases):
        rep, p = replies[ci], parsed[ci]
        rdict = {'harness_line': hl[ci][:20000], 'reply': rep[:3000]}
        if rep.startswith('CRASHED-TWICE'):
            ctx.violation('crash:%s:%s' % (c.kind, c.sortop.split('_by_')[0]), 'generated sort/find/scan code crashes with and without sanitizers: ' + rep[:300], rdict)
            continue
        if p is None:
            ctx.violation('harness-reply:%s' % c.kind, 'unexpected harness reply `%s`' % rep[:200], rdict)
            continue
        n = c.n()
        # -- buffer verifies before and after, nothing outside the vector changed
        if p['v0'] != 0:
            ctx.violation('verify-before:%s' % c.kind, 'freshly built buffer does not verify (%d)' % p['v0'], rdict); continue
        if p['v1'] != 0:
            ctx.violation('verify-after-sort:%s' % c.kind, 'buffer no longer verifies after %s (verifier code %d)' % (c.sortop, p['v1']), rdict)
        if p['changed'] != 0:
            ctx.violation('frame:%s' % c.kind, '%d byte(s) outside the vector changed during %s' % (p['changed'], c.sortop), rdict)
        if c.full and p.get('pre') is not None:
            off, es = p['off'], p['elsize']
            pre, post = p['pre'], p['post']
            if len(pre) != len(post) or any(pre[i] != post[i] for i in range(len(pre)) if not (off <= i < off + n * es)):
                ctx.violation('frame:%s' % c.kind, 'bytes outside the vector differ before/after %s (full dump)' % c.sortop, rdict)
            if c.kind in OFFSET_KINDS and n:
                # independent decode of the stored offsets from the dump
                raw = [int.from_bytes(post[off + 4 * i: off + 4 * i + 4], 'little') for i in range(n)]
                if raw != p['raw_post']:
                    ctx.violation('harness-reply:%s' % c.kind, 'raw offsets in dump and reply differ', rdict)
        ids = p['ids']          # identities after the sort (values for plain scalars)
        if 'torn' in ids:
            ctx.violation('struct-torn:%s' % c.kind, 'after %s a struct holds members of different original elements (the swap did not move whole structs)' % c.sortop, rdict)
            continue
        # -- permutation
        if c.kind in INT_KINDS or c.kind in FLOAT_KINDS:
            before = sorted(c.elems or [])
            after = sorted(ids)
        else:
            before = sorted(c.ident(i) for i in range(n)); after = sorted(ids) if all(isinstance(x, int) for x in ids) else ids
        if before != after:
            ctx.violation('not-a-permutation:%s:%s' % (c.kind, c.sortop.split('_by_')[0]), 'after %s the vector is not a permutation of the original elements' % c.sortop,
                          dict(rdict, before=str(before)[:500], after=str(after)[:500]))
            continue
        if c.kind in KS_LIKE or c.kind == 'ks2':
            # whole structs moved: fields printed with the payload must be those of the original element
            for slot, (i, fields) in enumerate(zip(ids, p['fields'])):
                exp = (c.elems[i],) if c.kind in KS_LIKE else c.elems[i]
                if tuple(fields) != tuple(exp):
                    ctx.violation('struct-torn:%s' % c.kind, 'struct at slot %d after the sort mixes fields of different elements' % slot, rdict); break
        if c.kind in OFFSET_KINDS and n:
            tg = lambda raw: sorted(((4 * i + o) & 0xffffffff) for i, o in enumerate(raw))
            for raw in (p['raw_pre'], p['raw_post']):
                if not all(4 * n <= 4 * i + o < 2 ** 32 for i, o in enumerate(raw)):
                    # hypothesis `targets_behind` of C16_offsets_ptr_agrees / C16_offsets_no_wrap (pointer arithmetic without wrap)
                    ctx.violation('targets-not-behind-vector:%s' % c.kind, 'a slot of the offset vector does not refer forward to an object behind the vector (before or after %s)' % c.sortop, rdict)
            if tg(p['raw_pre']) != tg(p['raw_post']):
                ctx.violation('targets-changed:%s' % c.kind, 'the multiset of objects the slots refer to changed during %s' % c.sortop, rdict)
        # -- sorted
        sf = c.eff_sort_field
        seq_idx = ids if not (c.kind in INT_KINDS or c.kind in FLOAT_KINDS) else None
        def keys_after(field):
            if seq_idx is None: return list(ids)
            return [c.key_of(i, field) for i in seq_idx]
        if sf is not None and c.elems is not None:
            t = c.field_type(sf)
            ka = keys_after(sf)
            if not U.is_sorted(ka, py_cmp(t)):
                ctx.violation('not-sorted:%s:%s' % (c.kind, c.sortop.split('_by_')[0]), 'after %s the keys are not in non-decreasing order' % c.sortop,
                              dict(rdict, keys_after=str(ka)[:600]))
            if t == 's' and not any(0 in k for k in ka) and ka != sorted(ka):
                ctx.violation('not-sorted:%s:bytes' % c.kind, 'after %s the strings are not in bytewise order' % c.sortop, rdict)
        elif c.elems is not None:
            # no sort requested / vector not marked sorted: order must be untouched
            exp = list(c.elems) if seq_idx is None else [c.ident(i) for i in range(n)]
            if list(ids) != exp:
                ctx.violation('unsorted-vector-modified:%s:%s' % (c.kind, c.sortop), 'vector changed although %s must not touch it' % c.sortop, rdict)
        # -- exact order and stored offsets vs. the model
        if sf is not None and c.elems is not None and ci in model_order:
            if list(model_order[ci]) != list(ids):
                ctx.violation('corr:sort-order:%s' % c.kind, 'element order after %s differs from the model (both sorted permutations: the algorithm deviates from the transcribed heap sort)' % c.sortop,
                              dict(rdict, model=str(model_order[ci])[:600], impl=str(ids)[:600]))
            if c.kind in OFFSET_KINDS and n and getattr(c, 'model_raw', None) is not None and c.model_raw != p['raw_post']:
                ctx.violation('corr:stored-offsets:%s' % c.kind, 'stored uoffsets after %s differ from the model' % c.sortop,
                              dict(rdict, model=str(c.model_raw)[:600], impl=str(p['raw_post'])[:600]))
        # -- queries
        for qi, q in enumerate(c.queries):
            nq += 1
            op, field, mode, b, e, key = q
            got = p['q'][qi] if qi < len(p['q']) else None
            if got is None or not got.isdigit():
                ctx.violation('harness-reply:query', 'query reply missing/invalid: %s' % got, rdict); continue
            got = int(got)
            t = c.field_type(field)
            ks = keys_after(field) if c.elems is not None else []
            eq = py_eq(t, mode, key)
            if op == 'find': want = U.first_match(ks, eq, 0, len(ks))
            elif op == 'scan': want = U.first_match(ks, eq, 0, len(ks))
            elif op == 'rscan': want = U.last_match(ks, eq, 0, len(ks))
            elif op == 'scanx': want = U.first_match(ks, eq, b, e)
            else: want = U.last_match(ks, eq, b, e)
            qd = dict(rdict, query='%s field=%s mode=%s begin=%d end=%d key=%s' % (op, field, mode, b, e, c.key_tok(field, key)), expected=want, got=got)
            if got != want:
                what = {'find': 'find does not return the lowest matching index / not_found', 'scan': 'scan does not return the first match',
                        'rscan': 'rscan does not return the last match', 'scanx': 'scan_ex does not return the first match of the clamped range',
                        'rscanx': 'rscan_ex does not return the last match of the clamped range'}[op]
                ctx.violation('%s:%s' % (op, 'string' if t == 's' else 'scalar'), '%s: got %d, expected %d (%s)' % (what, got, want, qd['query']), qd)
            m = model_q.get((ci, qi))
            same_order = not (c.eff_sort_field is not None and c.elems is not None) or list(model_order.get(ci, [])) == list(ids)
            if m is not None and m != str(got) and got == want and same_order:
                ctx.violation('corr:%s' % op, 'model and implementation disagree on %s: model %s impl %d' % (qd['query'], m, got), qd)
    ctx.cov['queries_evaluated'] = nq
    ctx.sample({'vector_case': hl[0][:300], 'reply': replies[0][:300]})
    big = next((i for i, c in enumerate(cases) if c.klass.startswith('random_kt')), 0)
    ctx.sample({'vector_case': hl[big][:300], 'reply': replies[big][:300]})



def parse_reply(c, rep):
    f = rep.split(' ')
    if len(f) < 8 or f[0] != 'OK': return None
    try:
        p = {'v0': int(f[1]), 'v1': int(f[2]), 'changed': int(f[3])}
        seq = [] if f[4] == 'e' else f[4].split(',')
        k = c.kind
        if k in INT_KINDS: p['ids'] = [int(x) for x in seq]
        elif k in FLOAT_KINDS: p['ids'] = [int(x, 16) for x in seq]
        elif k in KS_LIKE:
            p['ids'] = [int(x.split(':')[1]) if x.split(':')[1] != 'torn' else 'torn' for x in seq]; p['fields'] = [(int(x.split(':')[0]),) for x in seq]
        elif k == 'ks2':
            p['ids'] = [int(x.split(':')[1]) for x in seq]
            p['fields'] = [(int(a), int(b_, 16), int(c_)) for a, b_, c_ in (x.split(':')[0].split('/') for x in seq)]
        else:
            p['ids'] = [int(x) if not x.startswith('?') else x for x in seq]
        p['raw_pre'] = [] if f[5] in ('e', '-') else [int(x) for x in f[5].split(',')]
        p['raw_post'] = [] if f[6] in ('e', '-') else [int(x) for x in f[6].split(',')]
        p['q'] = [] if f[7] == '-' else f[7].split(',')
        if len(f) >= 12:
            p['off'], p['elsize'] = int(f[8]), int(f[9])
            p['pre'] = bytes.fromhex(f[10]); p['post'] = bytes.fromhex(f[11])
        return p
    except (ValueError, IndexError):
        return None


# ---------------------------------------------------------------------------------------------------------------------
def run_recursive(ctx, H):
    rng = ctx.rng
    nsc = 1500 if ctx.thorough else 80

    def ints(): return [rng.choice([3, 1, 2, -7, 2 ** 31 - 1, -2 ** 31, rng.randint(-50, 50)]) for _ in range(rng.choice([0, 1, 2, 3, 5, 9]))]
    def strs(): return [rng.choice([b'', b'a', b'ab', b'b', b'\xff', b'a\x80', b'abc']) for _ in range(rng.choice([0, 1, 2, 3, 5, 8]))]
    def kts(): return [rng.choice([5, 4, -1, 2 ** 63 - 1, -2 ** 63, 0, rng.randint(-9, 9)]) for _ in range(rng.choice([0, 1, 2, 3, 6]))]
    def opt(x): return None if rng.random() < 0.15 else x
    def inner(): return None if rng.random() < 0.1 else (opt(strs()), opt(ints()), opt(kts()))
    def il(l): return 'n' if l is None else ('e' if not l else ','.join(map(str, l)))
    def sl(l): return 'n' if l is None else ('e' if not l else ','.join(hx(s) for s in l))
    def inn(i): return 'n' if i is None else '%s/%s/%s' % (sl(i[0]), il(i[1]), il(i[2]))
    def un(u): return 'N' if u is None else ('I:' + inn(u[1]) if u[0] == 'I' else '%s:%d' % (u[0], u[1]))
    def union():
        r = rng.random()
        if r < 0.15: return None
        if r < 0.6:
            i = inner()
            return ('I', i if i is not None else ([], [], []))
        return (rng.choice(['K', 'L']), rng.randint(-5, 5))

    scen, lines = [], []
    for _ in range(nsc):
        s = {'v_i32': opt(ints()), 'v_str': opt(strs()), 'u_str': opt(strs()), 'v_kt': opt(kts()), 'u_kt': opt(kts()), 'inner': inner(),
             'inners': opt([i if i is not None else (None, None, None) for i in (inner() for _ in range(rng.choice([0, 1, 2, 4])))]),
             'un': opt(union()), 'uns': opt([union() for _ in range(rng.choice([0, 1, 3, 5]))]),
             'child': None if rng.random() < 0.3 else (opt(ints()), inner())}
        if s['un'] is None and rng.random() < 0.5: s['un'] = 'absent'
        line = 'R %s 3,1,2 %s %s %s %s %s %s %s %s %s' % (
            il(s['v_i32']), sl(s['v_str']), sl(s['u_str']), il(s['v_kt']), il(s['u_kt']), inn(s['inner']),
            'n' if s['inners'] is None else ('e' if not s['inners'] else '|'.join(inn(i) for i in s['inners'])),
            'n' if s['un'] == 'absent' else un(s['un']),
            'n' if s['uns'] is None else ('e' if not s['uns'] else '+'.join(un(u) for u in s['uns'])),
            'n' if s['child'] is None else '%s;%s' % (il(s['child'][0]), inn(s['child'][1])))
        scen.append(s); lines.append(line)
    replies = lib.run_harness_resilient(H, lines)
    # expected through the model: every sorted vector is heap-sorted, every other vector is unchanged
    mlines = []
    def want_i(l):
        if not l: return None
        mlines.append('sort z ' + ','.join('%d:%d' % (v, v) for v in l)); return len(mlines) - 1
    def want_s(l):
        if not l: return None
        mlines.append('sort s ' + ','.join('%s:0' % hx(v) for v in l)); return len(mlines) - 1
    def want_k(l):
        if not l: return None
        mlines.append('sort z ' + ','.join('%d:%d' % (v, i) for i, v in enumerate(l))); return len(mlines) - 1
    plan = []
    for s in scen:
        def pin(i): return None if i is None else (want_s(i[0]), None, want_k(i[2]))
        plan.append({'v_i32': want_i(s['v_i32']), 'v_str': want_s(s['v_str']), 'v_kt': want_k(s['v_kt']), 'inner': pin(s['inner']),
                     'inners': None if s['inners'] is None else [pin(i) for i in s['inners']],
                     'un': pin(s['un'][1]) if isinstance(s['un'], tuple) and s['un'][0] == 'I' else None,
                     'uns': None if s['uns'] is None else [pin(u[1]) if u is not None and u[0] == 'I' else None for u in s['uns']],
                     'child': None if s['child'] is None else (want_i(s['child'][0]), pin(s['child'][1]))})
    mres = ctx.run_model('sort', mlines) if mlines else []
    def m_i(ix, orig): return il(orig) if ix is None else ','.join(x.split(':')[0] for x in mres[ix].split(','))
    def m_s(ix, orig): return sl(orig) if ix is None else ','.join(x.split(':')[0] for x in mres[ix].split(','))
    def m_k(ix, orig, plain=False):
        if ix is None: return il(orig) if (orig is None or not orig) else ','.join('%d:%d' % (v, i) for i, v in enumerate(orig))
        return mres[ix]
    def m_inner(pl, i):
        if i is None: return 'n'
        return '%s/%s/%s' % (m_s(pl[0], i[0]), il(i[1]), m_k(pl[2], i[2]))
    def m_un(pl, u):
        if u is None: return 'N'
        if u[0] == 'I': return 'I:' + m_inner(pl, u[1])
        return '%s:%d' % (u[0], u[1])
    for s, pl, line, rep in zip(scen, plan, lines, replies):
        ctx.count(line, klass='recursive_sort')
        rd = {'harness_line': line, 'reply': rep[:2000]}
        if rep.startswith('CRASH'):
            ctx.violation('crash:recursive-sort', 'sanitizer / assertion failure in S_Root_sort: ' + rep[:300], rd); continue
        f = rep.split(' ')
        if len(f) != 15 or f[0] != 'OK':
            ctx.violation('harness-reply:R', 'unexpected reply `%s`' % rep[:200], rd); continue
        if f[1] != '0' or f[2] != '0':
            ctx.violation('verify-after-sort:recursive', 'buffer verify before/after S_Root_sort: %s %s' % (f[1], f[2]), rd)
        exp = [m_i(pl['v_i32'], s['v_i32']), '3,1,2', m_s(pl['v_str'], s['v_str']), sl(s['u_str']), m_k(pl['v_kt'], s['v_kt']), m_k(None, s['u_kt']),
               m_inner(pl['inner'], s['inner']),
               'n' if s['inners'] is None else ('e' if not s['inners'] else '|'.join(m_inner(p_, i) for p_, i in zip(pl['inners'], s['inners']))),
               'N' if s['un'] == 'absent' else m_un(pl['un'], s['un']),
               'n' if s['uns'] is None else ('e' if not s['uns'] else '+'.join(m_un(p_, u) for p_, u in zip(pl['uns'], s['uns']))),
               'n' if s['child'] is None else '%s;%s' % (m_i(pl['child'][0], s['child'][0]), m_inner(pl['child'][1], s['child'][1])),
               'tag=%d' % 0x5eed1234]
        names = ['v_i32 (sorted)', 'u_i32 (not sorted)', 'v_str (sorted)', 'u_str (not sorted)', 'v_kt (sorted)', 'u_kt (not sorted)', 'inner', 'inners', 'un', 'uns', 'child', 'tag']
        for nm, w, g in zip(names, exp, f[3:]):
            if w != g:
                unsorted = 'not sorted' in nm or nm == 'tag'
                ctx.violation('recursive-sort:%s' % nm.split(' ')[0],
                              ('S_Root_sort changed %s' % nm) if unsorted else ('after S_Root_sort field %s is `%s`, expected `%s` (sorted vectors sorted, everything else untouched)' % (nm, g[:200], w[:200])),
                              dict(rd, field=nm, expected=w, got=g))
                break
    ctx.sample({'recursive_case': lines[0][:300], 'reply': replies[0][:300]})


# ---------------------------------------------------------------------------------------------------------------------
SCALARS = ['ubyte', 'byte', 'ushort', 'short', 'uint', 'int', 'ulong', 'long', 'float', 'double', 'bool']


def random_schema(rng, idx, feature=None):
    """feature: None (clean population) | 'enum' (a live sorted vector of enums) | 'deprecated' (a deprecated vector marked sorted)."""
    types = [{'kind': 'enum', 'name': 'E0', 'base': 'short'}, {'kind': 'enum', 'name': 'E1', 'base': 'ubyte'},
             {'kind': 'struct', 'name': 'SK', 'fields': [{'name': 'k', 'type': 'int', 'vec': False, 'attrs': {'key'}}, {'name': 'v', 'type': 'ubyte', 'vec': False, 'attrs': set()}]},
             {'kind': 'struct', 'name': 'SN', 'fields': [{'name': 'x', 'type': 'int', 'vec': False, 'attrs': set()}]}]
    nt = rng.randint(2, 6)
    tnames = ['T%d' % i for i in range(nt)]
    keyed = {t: rng.random() < 0.6 for t in tnames}
    nu = rng.randint(0, 2)
    unions = []
    for u in range(nu):
        ms = rng.sample(tnames, rng.randint(1, min(3, nt)))
        for extra in ('SN', 'Txt: string'):      # struct / string members before and between the table members
            if rng.random() < 0.5: ms.insert(rng.randint(0, len(ms) - 1), extra)
        unions.append({'kind': 'union', 'name': 'U%d' % u, 'members': ms})
    tables = []
    for t in tnames:
        fields = []
        if keyed[t]:
            fields.append({'name': 'id', 'type': rng.choice(['int', 'string', 'ulong']), 'vec': False, 'attrs': {'key'}})
        for fi in range(rng.randint(0, 6)):
            r = rng.random()
            attrs = set()
            if r < 0.15: f = {'type': rng.choice(SCALARS), 'vec': False}
            elif r < 0.35:
                f = {'type': rng.choice(SCALARS), 'vec': True}
                if rng.random() < 0.5: attrs.add('sorted')
            elif r < 0.45:
                f = {'type': 'string', 'vec': True}
                if rng.random() < 0.5: attrs.add('sorted')
            elif r < 0.55:
                f = {'type': rng.choice(['SK', 'SN']), 'vec': True}
                if f['type'] == 'SK' and rng.random() < 0.5: attrs.add('sorted')
            elif r < 0.7:
                tt = rng.choice(tnames)
                f = {'type': tt, 'vec': True}
                if keyed[tt] and rng.random() < 0.5: attrs.add('sorted')
            elif r < 0.82: f = {'type': rng.choice(tnames), 'vec': False}
            elif r < 0.9 and unions: f = {'type': rng.choice(unions)['name'], 'vec': rng.random() < 0.5}
            elif r < 0.95: f = {'type': rng.choice(['E0', 'E1']), 'vec': True}
            else: f = {'type': 'string', 'vec': False}
            if rng.random() < 0.12 and 'sorted' not in attrs: attrs.add('deprecated')
            f['name'] = 'f%d' % fi; f['attrs'] = attrs
            fields.append(f)
        tables.append({'kind': 'table', 'name': t, 'fields': fields})
    if feature == 'enum':
        t = rng.choice(tables)
        t['fields'].append({'name': 'ev', 'type': rng.choice(['E0', 'E1']), 'vec': True, 'attrs': {'sorted'}})
    if feature == 'deprecated':
        t = rng.choice(tables)
        t['fields'].append({'name': 'dv', 'type': rng.choice(['int', 'string', 'SK']), 'vec': True, 'attrs': {'sorted', 'deprecated'}})
        if rng.random() < 0.7: t['fields'].append({'name': 'lv', 'type': 'int', 'vec': True, 'attrs': {'sorted'}})
    types += unions + tables
    return U.Schema(types)


def check_schema_text(ctx, text, name, schema, feature=None):
    """Run the fresh flatcc on a schema, compile the generated reader, compare the generated sorters with the expectation.
    Returns None when fine, else (key, what)."""
    d = os.path.join(ctx.bdir, 'schemas', name); os.makedirs(d, exist_ok=True)
    p = os.path.join(d, name + '.fbs'); open(p, 'w').write(text)
    rc, out = ctx.gen(p, d, opts=('-a',))
    suffix = {'enum': ':sorted-enum-vector', 'deprecated': ':sorted-deprecated-vector'}.get(feature, '')
    if rc != 0:
        return ('sorter-codegen:flatcc-fails' + suffix, 'flatcc fails (rc %d) on a schema with sorted vectors: %s' % (rc, ' '.join(out.split())[:300]))
    hdr = os.path.join(d, name + '_reader.h')
    tc = os.path.join(d, 't.c'); open(tc, 'w').write('#include "%s_reader.h"\nint main(void) { return 0; }\n' % name)
    rc, out = lib.sh(['gcc', '-std=c11', '-Werror=implicit-function-declaration', '-Werror=int-conversion', '-Werror=incompatible-pointer-types', '-fsyntax-only',
                      '-I%s/include' % lib.REPO, '-I' + d, tc], timeout=120)
    if rc != 0:
        errs = [l for l in out.split('\n') if 'error' in l]
        return ('sorter-codegen:generated-code-does-not-compile' + suffix, 'generated reader with sorters does not compile: %s' % ' | '.join(errs)[:400])
    if schema is not None:
        got = U.parse_generated_sorters(open(hdr).read())
        exp = schema.expected_sorters()
        if got != exp:
            diff = [k for k in set(got) | set(exp) if got.get(k) != exp.get(k)]
            k0 = sorted(diff)[0]
            return ('sorter-codegen:wrong-sort-calls' + suffix,
                    'generated %s_sort does not sort exactly the vectors marked sorted: generated %s, expected %s' % (k0, got.get(k0), exp.get(k0)))
    return None


def run_schemas(ctx):
    rng = ctx.rng
    jobs = [(None, 150 if ctx.thorough else 14), ('enum', 10 if ctx.thorough else 2), ('deprecated', 10 if ctx.thorough else 2)]
    k = 0
    first = None
    for feature, cnt in jobs:
        for i in range(cnt):
            sc = random_schema(rng, k, feature)
            name = 'sch%d' % k; k += 1
            text = sc.text()
            ctx.count(text, klass='sorter_schema_%s' % (feature or 'clean'))
            r = check_schema_text(ctx, text, name, sc, feature)
            if first is None: first = text
            if r:
                ctx.violation(r[0], r[1], {'schema': text, 'feature': feature or 'none', 'how': 'flatcc -a <schema>; gcc -fsyntax-only on the generated reader'})
    # minimal fixed witnesses of the two schema features (stable replays)
    for nm, feature, text in (
            ('min_enum', 'enum', 'attribute "sorted";\nenum E:short { A = -1, B = 0, C = 7 }\ntable T { v:[E] (sorted); w:[int] (sorted); }\nroot_type T;\n'),
            ('min_depr', 'deprecated', 'attribute "sorted";\ntable T { old:[int] (sorted, deprecated); w:[int] (sorted); }\nroot_type T;\n')):
        ctx.count(text, klass='sorter_schema_%s' % feature)
        sc = U.Schema([{'kind': 'enum', 'name': 'E', 'base': 'short'}] * (feature == 'enum') + [{'kind': 'table', 'name': 'T', 'fields': (
            [{'name': 'v', 'type': 'E', 'vec': True, 'attrs': {'sorted'}}] if feature == 'enum' else [{'name': 'old', 'type': 'int', 'vec': True, 'attrs': {'sorted', 'deprecated'}}]) +
            [{'name': 'w', 'type': 'int', 'vec': True, 'attrs': {'sorted'}}]}])
        r = check_schema_text(ctx, text, nm, sc, feature)
        if r: ctx.violation(r[0], r[1], {'schema': text, 'feature': feature, 'how': 'flatcc -a <schema>; gcc -fsyntax-only on the generated reader'})
    ctx.sample({'sorter_schema': (first or '')[:400]})
