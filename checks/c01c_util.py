"""C01 leaf tie (T5): regenerate coq/Generated/Leaf_verifier.v from /repo's CURRENT src/runtime/verifier.c
(translators/cleaf_to_coq.py, clang JSON AST -> Gallina), re-check the kernel-checked equivalence with the hand-written
VerifierModel (coq/Verifier/LeafEquiv.v, restated in coq/Properties/Properties_C01c.v) and, when it no longer checks,
search for a concrete argument tuple on which the regenerated leaf and the hand model differ.

API
    regen_leaves(ctx)  -> (ok, message)
        ok True : translation succeeded, Properties_C01c.vo re-checked, every theorem closed.
        ok False: message is one line,
           'leaf=<fn> differs from VerifierModel.<fn>: args={...} buffer=<hex> c=<result> model=<result>'   (witness found), or
           '... no-failing-input-found' (translator rejected the source / proof broke but the grid shows no difference).
        Details of the last call are in LAST (dict: 'witnesses', 'translator_error', 'broken', 'search_log').
    How checks/c01.py uses it (after its own check_theorems calls):

        ok, msg = c01c_util.regen_leaves(ctx)
        if not ok:
            w = c01c_util.LAST.get('witnesses') or []
            if w:   ctx.violation('leaf:' + w[0]['leaf'], msg, w[0])
            else:   ctx.broken_obligation('Properties_C01c.vo', {'message': msg, **c01c_util.LAST})

    regen_ident_leaves(ctx)  (C17: flatcc_identifier.h + header acceptors -> Generated/Leaf_ident.v, Properties_C17c) and
    regen_refmap_leaves(ctx) (C18: refmap hash + load-factor test -> Generated/Leaf_refmap.v, Properties_C18c) have the same contract:

        ok, msg = c01c_util.regen_ident_leaves(ctx)            # in checks/c17.py; regen_refmap_leaves in checks/c18.py
        if not ok:
            w = c01c_util.LAST.get('witnesses') or []
            if w:   ctx.violation('leaf:' + w[0]['leaf'], msg, w[0])
            else:   ctx.broken_obligation('Properties_C17c.vo', dict(c01c_util.LAST, message=msg))

    Witnesses are reported only when the compiled C confirms them (see _confirm); otherwise the message ends with
    no-failing-input-found and LAST['unconfirmed'] holds the candidates.
    regen_builder_leaves(ctx) is the same for the second family (src/runtime/builder.c pad/alignup helpers ->
    coq/Generated/Leaf_builder.v, Properties_C12c) when those files exist.
Result codes in a witness: 0 ok, n > 0 flatcc_verify_error n, -1 a read outside the buffer (None / VOob).
"""
import os, re, sys
from concurrent.futures import ThreadPoolExecutor
from . import lib

sys.path.insert(0, lib.ROOT)
from translators import cleaf_to_coq

LAST = {}

# leaf -> argument names of the witness tuple printed by the search_* definitions of coq/Verifier/LeafConv.v
SEARCH_ARGS = {
    'check_header': ['end', 'base', 'offset'],
    'verify_struct': ['end', 'base', 'offset', 'size', 'align'],
    'read_vt_entry': ['td.vtable_pos', 'td.table', 'td.tsize', 'td.vsize', 'id'],
    'verify_field': ['buf_addr', 'td.vtable_pos', 'td.table', 'td.tsize', 'td.vsize', 'id', 'required', 'size', 'align'],
    'get_offset_field': ['td.vtable_pos', 'td.table', 'td.tsize', 'td.vsize', 'id', 'required'],
    'verify_string': ['end', 'base', 'offset'],
    'verify_vector': ['end', 'base', 'offset', 'elem_size', 'align', 'max_count'],
}
BUILDER_SEARCH_ARGS = {
    'alignup_uoffset': ['x', 'align'],
    'front_pad': ['emit_start', 'size', 'align'],
    'back_pad': ['emit_end', 'align'],
    'emit_front': ['emit_start', 'iov_len'],      # results: 1 = the range test rejects, 0 = it lets the block through
    'emit_back': ['emit_end', 'iov_len'],
}


IDENT_SEARCH_ARGS = {       # results: 1000000 + n = header accepted with buffer size n, n = flatcc_verify_error n, -1 = read outside
    'flatbuffers_type_hash_from_string': [],          # the string bytes are the witness buffer
    'flatbuffers_type_hash_from_identifier': [],
    'flatbuffers_type_hash_from_name': [],            # -2 = the loop ran out of fuel (length + 1 iterations)
    'flatbuffers_identifier_from_type_hash': ['type_hash'],
    'flatcc_verify_buffer_header': ['buf_addr', '*fid(-1 = NULL | 0, string bytes...)'],
    'flatcc_verify_buffer_header_with_size': ['buf_addr', '*fid(-1 = NULL | 0, string bytes...)'],
    'flatcc_verify_typed_buffer_header': ['buf_addr', 'typed', 'thash'],
    'flatcc_verify_typed_buffer_header_with_size': ['buf_addr', 'typed', 'thash'],
}
REFMAP_SEARCH_ARGS = {
    '_flatcc_refmap_hash': ['src'],
    '_flatcc_refmap_above_load_factor': ['count', 'buckets'],
}


def _parse_zlist(s):
    s = s.strip()
    if s in ('[]', 'nil'): return []
    return [int(x.replace('(', '').replace(')', '')) for x in s.strip('[]').split(';') if x.strip()]


def _search_one(ctx, conv_mod, area, leaf, names):
    """vm_compute search_<leaf> in a scratch file; -> witness dict | None | {'error': text}"""
    v = os.path.join(ctx.bdir, 'leafsearch_%s.v' % leaf)
    with open(v, 'w') as f:
        f.write('From Flatcc.%s Require Import %s.\nEval vm_compute in search_%s.\n' % (area, conv_mod, leaf))
    rc, out = lib.sh(['coqc', '-Q', lib.COQ, 'Flatcc', v], timeout=900, cwd=ctx.bdir)
    if rc != 0:
        return {'leaf': leaf, 'error': out[-1500:]}
    flat = ' '.join(out.split()).replace('%Z', '').replace('%list', '')
    if re.search(r'=\s*None\b', flat): return None
    m = re.search(r'=\s*Some\s*\(\s*(\[[^\]]*\]|nil)\s*,\s*(\[[^\]]*\])\s*\)', flat)
    if not m: return {'leaf': leaf, 'error': 'unparsed search output: ' + flat[:400]}
    bts, vals = _parse_zlist(m.group(1)), _parse_zlist(m.group(2))
    args, (c, mo) = vals[:-2], vals[-2:]
    if names and names[-1].startswith('*'):
        ad = dict(zip(names[:-1], args)); ad[names[-1][1:]] = args[len(names) - 1:]
        names = names[:-1] + ['_'] * (len(args) - len(names) + 1)
    else:
        ad = dict(zip(names, args))
    w = {'leaf': leaf, 'args': ad, 'arg_list': args, 'buffer_hex': bytes(b & 255 for b in bts).hex() or '-',
         'c_result': c, 'model_result': mo}
    if len(args) > len(names):        # get_offset_field: the disagreement is on *out, not on the verdict
        w['note'] = 'verdicts agree (ok); *out (c_result) differs from the model base (model_result)'
    return w


def _search(ctx, conv_mod, area, table):
    with ThreadPoolExecutor(max_workers=8) as ex:
        res = list(ex.map(lambda kv: _search_one(ctx, conv_mod, area, kv[0], kv[1]), table.items()))
    wit = [r for r in res if r and 'error' not in r]
    errs = [r for r in res if r and 'error' in r]
    return wit, errs


WIT_EXTRA_SRCS = {'builder': ['src/runtime/emitter.c', 'src/runtime/refmap.c']}


def _confirm(ctx, family, wits):
    """Run the REAL C leaf (translators/leaf_wit_<family>.c over lib.REPO's current source, ASan) on every witness of the
    Coq search and keep only those on which it returns what the translation predicted (a read past the input -> -1).
    A witness the compiled code does not confirm says that translation or conventions are off, not the source: it is
    dropped (LAST['unconfirmed']) and the caller reports no-failing-input-found.  -> (confirmed, unconfirmed)"""
    if not wits: return [], []
    tdir = os.path.join(lib.ROOT, 'translators')
    exe = os.path.join(ctx.bdir, 'leaf_wit_%s' % family)
    srcs = [os.path.join(tdir, 'leaf_wit_%s.c' % family)] + [os.path.join(lib.REPO, x) for x in WIT_EXTRA_SRCS.get(family, [])]
    cmd = ['clang', '-std=gnu11', '-g', '-w', '-fsanitize=address', '-DNDEBUG', '-I%s/include' % lib.REPO, '-I' + tdir,
           '-DLEAF_SRC="%s"' % os.path.join(lib.REPO, cleaf_to_coq.FAMILIES[family]['src'])] + srcs + ['-o', exe]
    rc, out = lib.sh(cmd, timeout=300)
    good, bad = [], []
    for w in wits:
        if rc != 0:
            bad.append(dict(w, confirm='harness does not build: ' + out[-300:])); continue
        r, so, se = lib.sh2([exe, w['leaf'], w['buffer_hex']] + [str(a) for a in w['arg_list']], timeout=60,
                            env={'ASAN_OPTIONS': 'detect_leaks=0'})
        if 'ERROR: AddressSanitizer: heap-buffer-overflow' in se: real = -1       # a read past the input
        else:
            try: real = int(so.strip().split()[-1])
            except (ValueError, IndexError): real = None
        if real is not None and real == w['c_result']:
            good.append(dict(w, confirmed_by_compiled_c=True))
        else:
            bad.append(dict(w, confirm='compiled C gives %s, translation predicted %s' % (real, w['c_result'])))
    return good, bad


def _fmt(w, model_mod):
    return 'leaf=%s differs from %s.%s: args=%s buffer=%s c=%s model=%s' % (
        w['leaf'], model_mod, w['leaf'], w['args'], w['buffer_hex'], w['c_result'], w['model_result'])


def _regen(ctx, family, gen_rel, prop_module, conv_mod, area, table, model_mod):
    LAST.clear()
    try:
        text = cleaf_to_coq.generate(family, lib.REPO)
    except cleaf_to_coq.LeafError as e:
        LAST['translator_error'] = str(e)
        return False, 'T5 %s: the source left the translated subset or a leaf disappeared (%s) no-failing-input-found' % (family, e)
    changed = ctx.write_generated(gen_rel, text)
    LAST['regenerated_changed'] = changed
    o0, d0 = ctx.obligations, ctx.discharged
    ctx.check_theorems(prop_module=prop_module)
    ok = ctx.obligations > o0 and (ctx.obligations - o0) == (ctx.discharged - d0)      # this module's theorems only
    if ok:
        return True, '%s: %d leaves translated from %s, equivalence with the hand model re-checked' % (
            gen_rel, len(table), cleaf_to_coq.FAMILIES[family]['src'])
    LAST['broken'] = getattr(ctx, 'broken', {})
    # the generated file and the conventions file are dependencies of the broken proof; make -k has built them
    # when they still compile.  Make sure (cheap when up to date), then search.
    ctx.coq_make(['%s/%s.vo' % (area, conv_mod)], timeout=600)
    wit, errs = _search(ctx, conv_mod, area, table)
    wit, unconf = _confirm(ctx, family, wit)
    LAST['witnesses'], LAST['search_errors'], LAST['unconfirmed'] = wit, errs, unconf
    if wit:
        return False, '; '.join(_fmt(w, model_mod) for w in wit)
    why = 'search could not run: ' + errs[0]['error'][-300:].replace('\n', ' ') if errs else 'boundary grid shows no difference'
    if unconf: why = 'the search found %d candidate(s) that the compiled C does not confirm (%s: %s) - translation or conventions suspect' % (
        len(unconf), unconf[0]['leaf'], unconf[0]['confirm'])
    return False, 'T5 %s: %s.vo no longer checks over the regenerated %s (%s; %s) no-failing-input-found' % (
        family, prop_module, gen_rel, ','.join(LAST['broken'].get('files', [])[:3]), why)


def regen_leaves(ctx):
    return _regen(ctx, 'verifier', 'Generated/Leaf_verifier.v', 'Properties_C01c', 'LeafConv', 'Verifier', SEARCH_ARGS, 'VerifierModel')


def regen_builder_leaves(ctx):
    return _regen(ctx, 'builder', 'Generated/Leaf_builder.v', 'Properties_C12c', 'LeafConvB', 'Builder', BUILDER_SEARCH_ARGS, 'Builder/EmitModel')


def regen_ident_leaves(ctx):
    """C17: flatcc_identifier.h conversions + the four buffer-header acceptors -> Generated/Leaf_ident.v, Properties_C17c"""
    return _regen(ctx, 'ident', 'Generated/Leaf_ident.v', 'Properties_C17c', 'LeafConvI', 'Ident', IDENT_SEARCH_ARGS, 'IdentModel')


def regen_refmap_leaves(ctx):
    """C18: refmap.c hash and load-factor test -> Generated/Leaf_refmap.v, Properties_C18c"""
    return _regen(ctx, 'refmap', 'Generated/Leaf_refmap.v', 'Properties_C18c', 'LeafConvR', 'Refmap', REFMAP_SEARCH_ARGS, 'RefmapModel')


FAMILY_FUNCS = {'verifier': ('C01c', regen_leaves), 'builder': ('C12c', regen_builder_leaves),
                'ident': ('C17c', regen_ident_leaves), 'refmap': ('C18c', regen_refmap_leaves)}

if __name__ == '__main__':
    # stand-alone driver: python3 -m checks.c01c_util [verifier|builder|ident|refmap]   (honours VERIF_REPO)
    fam = sys.argv[1] if len(sys.argv) > 1 else 'verifier'
    ctx = lib.Ctx(FAMILY_FUNCS[fam][0], 'quick', 1, 'proof')
    ok, msg = FAMILY_FUNCS[fam][1](ctx)
    print('ok' if ok else 'FAIL', msg)
    for t in ctx.theorems: print('  ', t['theorem'], '-', t['assumptions'])
    sys.exit(0 if ok else 1)
