"""C16, recursive sorter reachability: generated schemas in which sorted vectors are reachable ONLY through a given kind of
edge (table field, table vector, union field, union vector), chains mixing the kinds, cycles, random graphs and random
declaration orders. For every schema
  * the text of the generated T_sort / U_sort is compared with the expectation computed from the schema AST
    (c16_util.Schema.expected_sorters), and
  * a generated C program (against the freshly generated reader/builder/verifier) builds an instance with every field present
    down to a bounded depth, dumps every [int] vector by path, runs <Root>_sort, dumps again; the oracle is by construction:
    a vector whose field is named `sv` is marked sorted and must come out sorted (same multiset), one named `uv` is not marked
    and must be unchanged; the buffer must verify before and after.
"""
import os, re
from . import lib
from . import c16_util as U


class Graph:
    """tables: name -> {'sv': bool, 'uv': bool, 'edges': [(field, kind, target)]}, kind in tf tv uf uv (target = table / union name)
       unions: name -> [member tables]; order: declaration order of all type names; root: table name."""
    def __init__(self, tables, unions, order, root):
        self.tables, self.unions, self.order, self.root = tables, unions, order, root

    STRUCT, STRING = 'St', 'Txt: string'      # non-table union members (a struct, an aliased string)

    def tmembers(self, u):
        return [m for m in self.unions[u] if m in self.tables]

    def schema(self):
        types = []
        if any(self.STRUCT in ms for ms in self.unions.values()):
            types.append({'kind': 'struct', 'name': 'St', 'fields': [{'name': 'x', 'type': 'int', 'vec': False, 'attrs': set()}]})
        for n in self.order:
            if n in self.unions:
                types.append({'kind': 'union', 'name': n, 'members': list(self.unions[n])})
            else:
                t = self.tables[n]
                fs = [{'name': 'tag', 'type': 'int', 'vec': False, 'attrs': set()}]
                if t['sv']: fs.append({'name': 'sv', 'type': 'int', 'vec': True, 'attrs': {'sorted'}})
                if t['uv']: fs.append({'name': 'uv', 'type': 'int', 'vec': True, 'attrs': set()})
                for f, k, tg in t['edges']:
                    fs.append({'name': f, 'type': tg, 'vec': k in ('tv', 'uv'), 'attrs': set()})
                types.append({'kind': 'table', 'name': n, 'fields': fs})
        return U.Schema(types)

    def text(self):
        return self.schema().text() + 'root_type %s;\n' % self.root

    # ---- C program
    def c_program(self, name, depth):
        o = ['#include <stdio.h>', '#include <stdlib.h>', '#include <string.h>', '#include "%s_builder.h"' % name, '#include "%s_verifier.h"' % name,
             'static int counter = 0;',
             'static flatbuffers_int32_vec_ref_t mkvec(flatcc_builder_t *B) { int32_t a[4]; int c = 10 * counter++; a[0] = c + 2; a[1] = c; a[2] = c + 1; a[3] = c;',
             '  return flatbuffers_int32_vec_create(B, a, 4); }',
             'static void dumpvec(const char *path, const char *f, flatbuffers_int32_vec_t v) { size_t i, n = flatbuffers_int32_vec_len(v);',
             '  printf("%s.%s=", path, f); if (!v) printf("absent"); for (i = 0; i < n; ++i) printf("%s%d", i ? "," : "", flatbuffers_int32_vec_at(v, i)); printf(";"); }']
        for n in self.tables:
            o.append('static %s_ref_t mk_%s(flatcc_builder_t *B, int depth, int as_root);' % (n, n))
            o.append('static void dump_%s(%s_table_t t, const char *path);' % (n, n))
        for n, t in self.tables.items():
            b = ['static %s_ref_t mk_%s(flatcc_builder_t *B, int depth, int as_root)\n{' % (n, n),
                 '  if (as_root) %s_start_as_root(B); else %s_start(B);' % (n, n), '  %s_tag_add(B, 7);' % n]
            if t['sv']: b.append('  %s_sv_add(B, mkvec(B));' % n)
            if t['uv']: b.append('  %s_uv_add(B, mkvec(B));' % n)
            b.append('  if (depth > 0) {')
            for f, k, tg in t['edges']:
                if k == 'tf':
                    b.append('    %s_%s_add(B, mk_%s(B, depth - 1, 0));' % (n, f, tg))
                elif k == 'tv':
                    b.append('    { %s_ref_t r[2]; r[0] = mk_%s(B, depth - 1, 0); r[1] = mk_%s(B, depth - 1, 0); %s_%s_add(B, %s_vec_create(B, r, 2)); }' % (tg, tg, tg, n, f, tg))
                elif k == 'uf':
                    ms = self.tmembers(tg)
                    b.append('    switch (depth %% %d) {' % len(ms))
                    for i, m in enumerate(ms):
                        b.append('    case %d: %s_%s_add(B, %s_as_%s(mk_%s(B, depth - 1, 0))); break;' % ((len(ms) - i) % len(ms), n, f, tg, m, m))
                    b.append('    }')
                else:
                    ms = self.tmembers(tg)
                    b.append('    { %s_union_ref_t r[%d];' % (tg, len(ms) + 1))
                    for i, m in enumerate(ms):
                        b.append('      r[%d] = %s_as_%s(mk_%s(B, depth - 1, 0));' % (i, tg, m, m))
                    b.append('      r[%d] = %s_as_NONE();' % (len(ms), tg))
                    b.append('      %s_%s_add(B, %s_vec_create(B, r, %d)); }' % (n, f, tg, len(ms) + 1))
            b.append('  }')
            b.append('  return as_root ? %s_end_as_root(B) : %s_end(B);\n}' % (n, n))
            o.append('\n'.join(b))
            d = ['static void dump_%s(%s_table_t t, const char *path)\n{ char p[512]; size_t i; (void)i; (void)p; if (!t) return;' % (n, n)]
            if t['sv']: d.append('  dumpvec(path, "sv", %s_sv(t));' % n)
            if t['uv']: d.append('  dumpvec(path, "uv", %s_uv(t));' % n)
            for f, k, tg in t['edges']:
                if k == 'tf':
                    d.append('  snprintf(p, sizeof p, "%%s.%s", path); dump_%s(%s_%s(t), p);' % (f, tg, n, f))
                elif k == 'tv':
                    d.append('  { %s_vec_t v = %s_%s(t); for (i = 0; i < %s_vec_len(v); ++i) { snprintf(p, sizeof p, "%%s.%s[%%d]", path, (int)i); dump_%s(%s_vec_at(v, i), p); } }' % (tg, n, f, tg, f, tg, tg))
                elif k == 'uf':
                    d.append('  snprintf(p, sizeof p, "%%s.%s", path); switch (%s_%s_type(t)) {' % (f, n, f))
                    for m in self.tmembers(tg):
                        d.append('    case %s_%s: dump_%s((%s_table_t)%s_%s(t), p); break;' % (tg, m, m, m, n, f))
                    d.append('    default: break; }')
                else:
                    d.append('  { %s_union_vec_t uv = %s_%s_union(t); for (i = 0; i < %s_union_vec_len(uv); ++i) { %s_union_t u = %s_union_vec_at(uv, i);' % (tg, n, f, tg, tg, tg))
                    d.append('      snprintf(p, sizeof p, "%%s.%s[%%d]", path, (int)i); switch (u.type) {' % f)
                    for m in self.tmembers(tg):
                        d.append('      case %s_%s: dump_%s((%s_table_t)u.value, p); break;' % (tg, m, m, m))
                    d.append('      default: break; } } }')
            d.append('}')
            o.append('\n'.join(d))
        r = self.root
        o.append('''int main(void)
{ flatcc_builder_t builder, *B = &builder; void *buf = 0; size_t size; int v0, v1; %s_table_t root;
  flatcc_builder_init(B); mk_%s(B, %d, 1);
  size = flatcc_builder_get_buffer_size(B); if (posix_memalign(&buf, 64, size)) return 3;
  if (!flatcc_builder_copy_buffer(B, buf, size)) { printf("BUILDFAIL\\n"); return 0; }
  root = %s_as_root(buf);
  v0 = %s_verify_as_root(buf, size);
  printf("OK %%d B ", v0); dump_%s(root, "r");
  %s_sort((%s_mutable_table_t)root);
  v1 = %s_verify_as_root(buf, size);
  printf(" A "); dump_%s(root, "r"); printf(" V %%d\\n", v1);
  flatcc_builder_clear(B); free(buf); return 0; }''' % (r, r, depth, r, r, r, r, r, r, r))
        return '\n'.join(o) + '\n'


EDGE_KINDS = ('tf', 'tv', 'uf', 'uv')


def edges_graph(rng):
    """sorted vectors reachable ONLY through one kind of edge, and every chain of two kinds below the root."""
    tables = {'Leaf': {'sv': True, 'uv': True, 'edges': []}, 'Plain': {'sv': False, 'uv': True, 'edges': []}}
    unions = {'UL': [Graph.STRUCT, 'Leaf', Graph.STRING, 'Plain']}
    root_edges = []
    def edge(kind, table, union):
        return {'tf': ('e', 'tf', table), 'tv': ('e', 'tv', table), 'uf': ('e', 'uf', union), 'uv': ('e', 'uv', union)}[kind]
    for y in EDGE_KINDS:
        tables['N_' + y] = {'sv': False, 'uv': rng.random() < 0.5, 'edges': [edge(y, 'Leaf', 'UL')]}
        unions['UN_' + y] = rng.choice([[Graph.STRING, Graph.STRUCT, 'N_' + y, 'Plain'], ['Plain', Graph.STRUCT, 'N_' + y], [Graph.STRUCT, 'N_' + y, 'Plain'], ['N_' + y, Graph.STRUCT, 'Plain']])
        for x in EDGE_KINDS:
            tables['M_%s_%s' % (x, y)] = {'sv': False, 'uv': rng.random() < 0.5, 'edges': [edge(x, 'N_' + y, 'UN_' + y)]}
            root_edges.append(('m_%s_%s' % (x, y), 'tf', 'M_%s_%s' % (x, y)))
    # the root itself has no sorted vector of its own in half of the schemas
    tables['Root'] = {'sv': rng.random() < 0.5, 'uv': True, 'edges': root_edges}
    order = list(tables) + list(unions)
    rng.shuffle(order)
    return Graph(tables, unions, order, 'Root'), 3


def cycle_graph(rng):
    tables = {'Leaf': {'sv': True, 'uv': True, 'edges': []},
              'Cyc': {'sv': False, 'uv': True, 'edges': [('nexts', 'uv', 'UC')]},
              'Cyc2': {'sv': False, 'uv': False, 'edges': [('other', 'tf', 'Cyc3')]},
              'Cyc3': {'sv': False, 'uv': True, 'edges': [('back', 'tv', 'Cyc2'), ('leaf', 'uf', 'UL')]},
              'Self': {'sv': False, 'uv': False, 'edges': [('me', 'uv', 'US'), ('l', 'tv', 'Leaf')]},
              'Root': {'sv': False, 'uv': True, 'edges': [('c', 'tf', 'Cyc'), ('d', 'tv', 'Cyc2'), ('s', 'uf', 'US')]}}
    unions = {'UC': [Graph.STRUCT, 'Cyc', Graph.STRING, 'Leaf'], 'UL': [Graph.STRING, Graph.STRUCT, 'Leaf'], 'US': ['Self']}
    order = list(tables) + list(unions)
    rng.shuffle(order)
    return Graph(tables, unions, order, 'Root'), 4


def random_graph(rng):
    nt = rng.randint(4, 8)
    names = ['T%d' % i for i in range(nt)]
    nu = rng.randint(1, 3)
    unions = {'U%d' % i: rng.sample(names[1:], rng.randint(1, min(3, nt - 1))) for i in range(nu)}
    for u in unions:
        # struct / string members before and between the table members
        for extra in (Graph.STRUCT, Graph.STRING):
            if rng.random() < 0.6: unions[u].insert(rng.randint(0, len(unions[u]) - 1), extra)
    tables = {}
    for i, n in enumerate(names):
        edges = []
        for j in range(rng.choice([0, 1, 1, 2, 2, 3]) if i else rng.randint(2, 4)):
            k = rng.choice(EDGE_KINDS)
            tg = rng.choice(list(unions)) if k in ('uf', 'uv') else rng.choice(names[1:])
            edges.append(('e%d' % j, k, tg))
        tables[n] = {'sv': rng.random() < (0.3 if i else 0.5), 'uv': rng.random() < 0.6, 'edges': edges}
    g = Graph(tables, unions, None, 'T0')
    # the root must have a sorter for the program to exist: make sure something sorted is reachable
    if 'T0' not in Graph(tables, unions, list(tables) + list(unions), 'T0').schema().sortable():
        tables['T0']['sv'] = True
    order = list(tables) + list(unions)
    rng.shuffle(order)
    g.order = order
    return g, 3


def check_graph(ctx, g, depth, name, klass, objs):
    """returns list of (key, what, detail)"""
    out = []
    d = os.path.join(ctx.bdir, 'reach', name); os.makedirs(d, exist_ok=True)
    text = g.text()
    fbs = os.path.join(d, name + '.fbs'); open(fbs, 'w').write(text)
    rep = {'schema': text, 'reach_depth': depth, 'how': 'flatcc -a; generated program builds every field to the given depth, runs %s_sort, dumps all [int] vectors' % g.root}
    rc, o = ctx.gen(fbs, d, opts=('-a',))
    if rc != 0:
        return [('recursive-sort:reachability:flatcc-fails', 'flatcc fails on a schema with nested sorted vectors: ' + ' '.join(o.split())[:300], rep)]
    sc = g.schema()
    got = U.parse_generated_sorters(open(os.path.join(d, name + '_reader.h')).read())
    exp = sc.expected_sorters()
    if got != exp:
        diff = sorted(k for k in set(got) | set(exp) if got.get(k) != exp.get(k))
        k0 = diff[0]
        out.append(('sorter-codegen:wrong-sort-calls:%s' % klass,
                    'generated sorters do not reach exactly the vectors marked sorted: %s_sort generated %s, expected %s (differing: %s)' % (k0, got.get(k0), exp.get(k0), ','.join(diff)[:200]), rep))
    cfile = os.path.join(d, name + '_reach.c'); open(cfile, 'w').write(g.c_program(name, depth))
    exe = os.path.join(d, name + '_reach')
    try:
        ctx.cc([cfile] + objs, exe, san=True, incs=['-I' + d])
    except lib.BuildFailure as e:
        errs = [l for l in e.out.split('\n') if 'error' in l]
        out.append(('recursive-sort:reachability:program-does-not-compile:%s' % klass,
                    'program using the generated %s_sort does not compile: %s' % (g.root, ' | '.join(errs)[:400]), rep))
        return out
    rc, so, se = lib.sh2([exe], timeout=120, env={'ASAN_OPTIONS': 'detect_leaks=0', 'UBSAN_OPTIONS': 'print_stacktrace=1'})
    m = re.match(r'OK (-?\d+) B (.*) A (.*) V (-?\d+)\s*$', so)
    if rc != 0 or not m:
        out.append(('crash:recursive-sort:%s' % klass, 'generated recursive sorter program failed (rc %d): %s' % (rc, (se or so)[-400:]), rep))
        return out
    if m.group(1) != '0' or m.group(4) != '0':
        out.append(('verify-after-sort:recursive', 'buffer verify before/after %s_sort: %s / %s' % (g.root, m.group(1), m.group(4)), rep))
    before = dict(x.split('=') for x in m.group(2).split(';') if x)
    after = dict(x.split('=') for x in m.group(3).split(';') if x)
    nsv = nuv = 0
    if set(before) != set(after):
        out.append(('recursive-sort:reachability:paths-changed', 'the set of vectors reachable from the root changed during %s_sort' % g.root, rep))
        return out
    for path in sorted(before):
        b = [int(x) for x in before[path].split(',')]
        a = after[path]
        if path.endswith('.sv'):
            nsv += 1
            if a != ','.join(map(str, sorted(b))):
                kinds = re.sub(r'\[\d+\]', '[]', path)
                out.append(('recursive-sort:reachability:sorted-vector-not-sorted:%s' % klass,
                            'after %s_sort the vector %s (marked sorted) is `%s`, expected `%s`' % (g.root, path, a, ','.join(map(str, sorted(b)))),
                            dict(rep, path=path, before=before[path], after=a)))
                break
        else:
            nuv += 1
            if a != before[path]:
                out.append(('recursive-sort:reachability:unsorted-vector-modified:%s' % klass,
                            'after %s_sort the vector %s (not marked sorted) changed from `%s` to `%s`' % (g.root, path, before[path], a),
                            dict(rep, path=path, before=before[path], after=a)))
                break
    ctx.count(text, klass='reach_%s' % klass)
    ctx.cov['reach_vectors'] = ctx.cov.get('reach_vectors', 0) + nsv + nuv
    return out


def run(ctx):
    rng = ctx.rng
    objs = ctx.rt_objs(san=True, srcs=['src/runtime/builder.c', 'src/runtime/emitter.c', 'src/runtime/refmap.c', 'src/runtime/verifier.c'])
    jobs = [('edges', edges_graph)] * (4 if ctx.thorough else 1) + [('cycles', cycle_graph)] * (3 if ctx.thorough else 1) + \
           [('random', random_graph)] * (40 if ctx.thorough else 5)
    first = None
    for i, (klass, fn) in enumerate(jobs):
        g, depth = fn(rng)
        if first is None: first = g.text()
        for key, what, rep in check_graph(ctx, g, depth, 'reach%d' % i, klass, objs):
            ctx.violation(key, what, rep)
    ctx.sample({'reachability_schema': (first or '')[:600]})


def replay(ctx, rep):
    """re-run one recorded schema (text only: the graph is re-parsed from it)."""
    g = graph_from_text(rep['schema'])
    objs = ctx.rt_objs(san=True, srcs=['src/runtime/builder.c', 'src/runtime/emitter.c', 'src/runtime/refmap.c', 'src/runtime/verifier.c'])
    for key, what, r in check_graph(ctx, g, int(rep.get('reach_depth', 3)), 'reachreplay', 'replay', objs):
        ctx.violation(rep.get('key', key), what, r)


def graph_from_text(text):
    tables, unions, order, root = {}, {}, [], None
    for line in text.split('\n'):
        m = re.match(r'union (\w+) \{ (.*) \}', line)
        if m:
            unions[m.group(1)] = [x.strip() for x in m.group(2).split(',')]; order.append(m.group(1)); continue
        m = re.match(r'table (\w+) \{ (.*) \}', line)
        if m:
            t = {'sv': False, 'uv': False, 'edges': []}
            for f in m.group(2).split(';'):
                f = f.strip()
                if not f: continue
                fm = re.match(r'(\w+):(\[?)(\w+)\]?', f)
                nm, vec, ty = fm.group(1), fm.group(2) == '[', fm.group(3)
                if nm == 'tag': continue
                if nm == 'sv': t['sv'] = True
                elif nm == 'uv' and ty == 'int': t['uv'] = True
                else: t['edges'].append((nm, None, ty, vec))
            tables[m.group(1)] = t; order.append(m.group(1)); continue
        m = re.match(r'root_type (\w+);', line)
        if m: root = m.group(1)
    for t in tables.values():
        t['edges'] = [(nm, ('uv' if vec else 'uf') if ty in unions else ('tv' if vec else 'tf'), ty) for nm, _, ty, vec in t['edges']]
    return Graph(tables, unions, order, root)
