"""C17 - Identifiers and type hashes are computed, stored and checked consistently.

1. T1 constants -> coq/Generated/Consts.v; re-check Properties_C17.vo (theorems about Ident/IdentModel.v).
2. Correspondence: extracted model (modelrun_ident) vs. /repo's current code (harness/ident_diff.c linked with
   verifier.c, builder.c, emitter.c, json_printer.c and a freshly generated flatbuffers_common_reader.h),
   plus compile-time hashes from the freshly built flatcc on generated schemas.
3. Every disagreement is classified against the property's own statement (python oracle `accept_spec`,
   FNV-1a reference) to produce a concrete failing input.
"""
import os, re
from . import lib


def fnv1a(bs):
    h = 2166136261
    for c in bs:
        h = ((h ^ c) * 16777619) & 0xffffffff
    return h or 2166136261


def raw_fnv(bs):
    h = 2166136261
    for c in bs:
        h = ((h ^ c) * 16777619) & 0xffffffff
    return h


def hx(bs):
    return bytes(bs).hex() if len(bs) else '-'


def requested(req):
    """python transcription of the property's notion of the requested identifier (independent oracle)."""
    if req == 'null': return 0
    if req.startswith('h:'): return int(req[2:])
    s = bytes.fromhex(req[2:]) if req[2:] != '-' else b''
    s = s.split(b'\0')[0][:4]
    return int.from_bytes(s.ljust(4, b'\0'), 'little')


def run(ctx):
    rng = ctx.rng
    consts = lib.gen_consts(ctx)
    ok = ctx.check_theorems()
    if not ok:
        ctx.broken_obligation('Properties_C17.vo', getattr(ctx, 'broken', {}))
    if os.path.exists(os.path.join(lib.COQ, 'Properties', 'Properties_C17c.v')):
        # T5: flatcc_identifier.h conversions and the buffer-header acceptors of verifier.c regenerated from the clang AST
        from . import c01c_util
        okl, msg = c01c_util.regen_ident_leaves(ctx)
        ctx.log('T5 identifier leaves: %s' % (msg if not okl else 'regenerated, Properties_C17c re-checked'))
        if not okl:
            w = c01c_util.LAST.get('witnesses') or []
            if w: ctx.violation('leaf:' + w[0]['leaf'], msg, w[0])
            else: ctx.broken_obligation('Properties_C17c.vo', dict(c01c_util.LAST, message=msg))

    # ---- build implementation side from the current tree
    gdir = os.path.join(ctx.bdir, 'gen'); os.makedirs(gdir, exist_ok=True)
    fbs = os.path.join(ctx.bdir, 'dummy.fbs'); open(fbs, 'w').write('table T { a:int; }\n')
    rc, out = ctx.gen(fbs, gdir, opts=('-c',))
    if rc != 0: raise lib.BuildFailure('flatcc -c dummy.fbs', out)
    objs = ctx.rt_objs(san=True, defs=['-DNDEBUG'])
    exe = ctx.cc([os.path.join(lib.ROOT, 'harness', 'ident_diff.c')] + objs, os.path.join(ctx.bdir, 'ident_diff'), san=True,
                 defs=['-DNDEBUG'], incs=['-I' + gdir, '-I' + os.path.join(lib.ROOT, 'harness')])
    H = lib.Harness(exe)

    cases = []   # (klass, model_line, impl_line)

    def add(klass, m, i=None):
        cases.append((klass, m, i if i is not None else m))

    # ---- names -> runtime hash
    alphabet = b'abcdefghijklmnopqrstuvwxyzABCDEFGHIJKLMNOPQRSTUVWXYZ_0123456789'
    names = [b'', b'a', b'Monster', b'MyGame.Example.Monster', b'X.Y', b'\xc3\xa9t\xc3\xa9.T']
    # corpus: qualified names whose raw FNV-1a-32 is exactly 0 (must be remapped to hash("")); verified here, not assumed
    ZERO_NAMES = [n for n in (b'qzs0UD', b'sXbssr', b'Game.Data.Tb11VcD') if raw_fnv(n) == 0]
    names += ZERO_NAMES
    nnames = 3000 if ctx.thorough else 400
    for _ in range(nnames):
        ln = rng.choice([1, 2, 3, 7, 8, 9, 15, 16, 17, 31, 32, 33, 63, 64, rng.randint(1, 64)])
        nm = bytes(rng.choice(alphabet + b'.') for _ in range(ln))
        names.append(nm)
    # names engineered to hash to small values / zero bytes: brute-force search over short suffixes
    target_found = 0
    tries = 400000 if ctx.thorough else 60000
    for k in range(tries):
        nm = b'N' + str(k).encode()
        h = fnv1a(nm)
        if h < 65536 * 16 or (h & 0xff) == 0 or ((h >> 8) & 0xff) == 0 or ((h >> 16) & 0xff) == 0 or (h >> 24) == 0:
            if target_found < (400 if ctx.thorough else 80):
                names.append(nm); target_found += 1
    for nm in names:
        tailb = b'\0' + bytes(rng.randint(0, 255) for _ in range(rng.randint(0, 3)))
        add('name_hash', 'name ' + hx(nm + tailb))
        add('name_identifier', 'idfromname ' + hx(nm + tailb))
    # ---- identifier conversions
    hashes = [0, 1, 255, 256, 65535, 65536, 0xffffff, 0x1000000, 0xffffffff, 0x534e4f4d, 0x80000000, 0x7fffffff]
    hashes += [rng.getrandbits(32) for _ in range(300)] + [fnv1a(n) for n in names[:200]]
    for h in hashes:
        add('idfromhash', 'idfromhash %d' % h)
        add('hashfromid', 'hashfromid ' + hx(h.to_bytes(4, 'little')))
    strs = [b'', b'X', b'AB', b'ABC', b'MONS', b'MONSTER', b'\xff\xfe\xfd\xfc', b'A\0BC', b'AB\0C', b'ABC\0']
    for _ in range(300):
        ln = rng.randint(0, 6)
        strs.append(bytes(rng.choice([0, 1, 65, 127, 128, 255, rng.randint(1, 255)]) for _ in range(ln)))
    for s in strs:
        add('hashfromstr', 'hashfromstr ' + hx(s.split(b'\0')[0]))

    # ---- buffers built by the real builder with identifiers, then every acceptor x requested id
    idents = ['null', '00000000', '4d4f4e53', '58000000', '41420000', '41424300', '00424344', '41004344', '41420044',
              'ffffffff', '01000000', '00000001', '80000080']
    for _ in range(40 if ctx.thorough else 10):
        idents.append(hx(bytes(rng.choice([0, rng.randint(1, 255), rng.randint(1, 255)]) for _ in range(4))))
    for nm in names[:30]:
        idents.append(hx(fnv1a(nm).to_bytes(4, 'little')))
    builds = []
    for ident in idents:
        for ws in (0, 1):
            for al in (4, 8, 16, 1):
                builds.append('build %d %s %d' % (ws, ident, al))
    # the identifier replaced on the open buffer (flatcc_builder_set_identifier: "may be null or contain all zero, overrides any
    # identifier given to the start buffer call"): the buffer carries the LAST identifier it was given
    for start in ('null', '4d4f4e53', '41004344', '00000000'):
        for ident in idents[:13]:
            for ws in (0, 1):
                for al in (4, 8):
                    builds.append('buildset %d %s %s %d' % (ws, start, ident, al))
    rcb, built, errb = H.run(builds)
    if len(built) != len(builds):
        raise lib.CheckError('ident_diff crashed while building buffers: ' + errb[-2000:])
    bufs = []
    for line, b in zip(builds, built):
        if line.startswith('buildset '):
            _, ws, _start, ident, al = line.split()
        else:
            _, ws, ident, al = line.split()
        if b == 'FAIL':
            ctx.violation('build-failed:%s' % line, 'builder failed to finish a struct-root buffer: ' + line, {'harness_line': line})
            continue
        raw = bytes.fromhex(b)
        bufs.append((int(ws), ident, int(al), raw))
        idv = 0 if ident == 'null' else int.from_bytes(bytes.fromhex(ident), 'little')
        # property clause: "A buffer carries exactly the identifier it was finished with (none when null or all-zero)"
        pos = 8 if int(ws) else 4
        hdr_len = int.from_bytes(raw[pos - 4:pos], 'little') + (4 if int(ws) else 0)   # root offset -> struct position
        ctx.count(line, klass='stored_identifier')
        if idv != 0:
            got = int.from_bytes(raw[pos:pos + 4], 'little')
            if got != idv:
                ctx.violation('stored-identifier:%sws=%s' % ('set:' if line.startswith('buildset') else '', ws), 'buffer finished with identifier %s carries %08x at offset %d' % (ident, got, pos),
                              {'harness_line': line, 'buffer_hex': b})
        else:
            # no identifier field: struct (aligned al) must start before pos+4 when al <= 4, i.e. header is not padded by an id
            if int(al) == 4 and hdr_len != pos:
                ctx.violation('stored-identifier-none:%sws=%s' % ('set:' if line.startswith('buildset') else '', ws), 'null/zero identifier still occupies header space (struct at %d, expected %d)' % (hdr_len, pos),
                              {'harness_line': line, 'buffer_hex': b})
        add('stored_model', 'idfield ' + ident, None)

    # ---- nested buffers: each buffer carries exactly the identifier IT was finished with (none when null), whatever the parent has
    nb = []
    for pid in ('null', '4d4f4e53', '41004344'):
        for nid in ('null', '00000000', '4e455354', '4d4f4e53'):
            for al in (4, 8):
                nb.append('nbuild %s %s %d' % (pid, nid, al))
                for sid in ('null', '00000000', '53455421', '4d4f4e53'):
                    nb.append('nbuildset %s %s %s %d' % (pid, nid, sid, al))
    rcn, nbuilt, errn = H.run(nb)
    if len(nbuilt) != len(nb): raise lib.CheckError('ident_diff crashed while building nested buffers: ' + errn[-1500:])
    for line, b in zip(nb, nbuilt):
        if line.startswith('nbuildset '):
            _, pid, _nstart, nid, al = line.split()
        else:
            _, pid, nid, al = line.split()
        ctx.count(line, klass='nested_identifier')
        if b == 'FAIL':
            ctx.violation('nested-build-failed', 'builder failed on a nested struct-root buffer: ' + line, {'harness_line': line}); continue
        raw = bytes.fromhex(b)
        rd = lambda p: int.from_bytes(raw[p:p + 4], 'little')
        tp = rd(0); vt = tp - int.from_bytes(raw[tp:tp + 4], 'little', signed=True)
        fo = int.from_bytes(raw[vt + 4:vt + 6], 'little'); slot = tp + fo; vec = slot + rd(slot)
        nlen = rd(vec); nest = raw[vec + 4:vec + 4 + nlen]
        pidv = 0 if pid == 'null' else int.from_bytes(bytes.fromhex(pid), 'little')
        nidv = 0 if nid == 'null' else int.from_bytes(bytes.fromhex(nid), 'little')
        stored_parent = rd(4)
        if pidv and stored_parent != pidv:
            ctx.violation('stored-identifier:parent-of-nested', 'parent finished with %s carries %08x' % (pid, stored_parent), {'harness_line': line, 'buffer_hex': b})
        root = int.from_bytes(nest[0:4], 'little')
        if nidv:
            got = int.from_bytes(nest[4:8], 'little')
            if got != nidv:
                ctx.violation('stored-identifier:nested', 'nested buffer finished with identifier %s inside a parent with %s carries %08x' % (nid, pid, got), {'harness_line': line, 'buffer_hex': b})
        elif int(al) == 4 and root != 4:
            ctx.violation('stored-identifier-none:nested', 'nested buffer finished with a null/zero identifier inside a parent with identifier %s has a %d-byte header (identifier field %s present)' % (
                pid, root, nest[4:8].hex()), {'harness_line': line, 'buffer_hex': b})

    reqs_for = lambda ident: ['null', 'h:0', 's:-', 's:' + (ident if ident != 'null' else '4d4f4e53')]
    acc_cases = []   # (klass, model line, impl line, oracle expected accept or None, description)
    for ws, ident, al, raw in bufs:
        idv = 0 if ident == 'null' else int.from_bytes(bytes.fromhex(ident), 'little')
        pos = 8 if ws else 4
        stored = int.from_bytes(raw[pos:pos + 4], 'little')
        rq = ['null', 'h:0', 's:-', 'h:%d' % stored, 'h:%d' % ((stored + 1) & 0xffffffff), 'h:%d' % (stored ^ 0x80000000),
              's:4d4f4e53', 's:58', 's:4142', 's:414243']
        if ident != 'null':
            rq.append('s:' + hx(bytes.fromhex(ident).split(b'\0')[0]))
            rq.append('h:%d' % idv)
        # the value found at the *other* candidate position (catches reading the identifier from the wrong place)
        other = int.from_bytes(raw[(4 if ws else 8):(4 if ws else 8) + 4].ljust(4, b'\0'), 'little')
        rq.append('h:%d' % other)
        for r in rng.sample(rq, len(rq)) if not ctx.thorough else rq:
            want = (requested(r) == 0) or (requested(r) == stored)
            for am in ((0, 4, 2) if ctx.thorough else (0,)):
                v = 's' if ws else 'p'
                acc_cases.append(('hdr_' + v, 'hdr %s %d %s %s' % (v, am, r, raw.hex()), want if am % 4 == 0 else False))
            acc_cases.append(('has', 'has %d %s %s' % (4 if ws else 0, r, raw.hex()), want))
            if not ws and not r.startswith('h:'):
                acc_cases.append(('pacc', 'pacc %s %s' % (r, raw.hex()), want))
    # header-size / size-field edge cases (hand-made bytes, outside the builder's range)
    edge = []
    for n in (0, 4, 7, 8, 11, 12, 16):
        for ws in (0, 1):
            for sf in (0, n - 4, n - 3, n, 0xffffffff) if n >= 4 else (0,):
                b = bytearray(rng.getrandbits(8) for _ in range(n))
                if n >= 4 and ws: b[0:4] = (sf & 0xffffffff).to_bytes(4, 'little')
                for r in ('null', 's:4d4f4e53', 'h:1'):
                    edge.append(('hdr_edge', 'hdr %s 0 %s %s' % ('s' if ws else 'p', r, hx(b)), None))
    acc_cases += edge

    for klass, m, i in cases: ctx.count(m, klass=klass)
    for klass, line, want in acc_cases: ctx.count(line, klass=klass)
    mlines = [m for _, m, _ in cases] + [l for _, l, _ in acc_cases]
    ilines = [(i, k) for k, _, i in cases if k != 'stored_model'] + [(l, k) for k, l, _ in acc_cases]
    mres = ctx.run_model('ident', mlines)
    ires_list = lib.run_harness_resilient(H, [l for l, _ in ilines])
    ires = dict(zip([l for l, _ in ilines], ires_list))
    mmap = dict(zip(mlines, mres))

    ndis = 0
    for klass, m, i in cases:
        if klass == 'stored_model': continue
        a, b = mmap[m], ires.get(i)
        if a != b:
            ndis += 1
            key = 'corr:%s' % klass
            detail = {'model_line': m, 'model': a, 'impl': b}
            # property-level oracle for hashes: FNV-1a reference
            if klass == 'name_identifier':
                nm = bytes.fromhex(m.split()[1]).split(b'\0')[0]
                if fnv1a(nm).to_bytes(4, 'little').hex() != b:
                    ctx.violation('name-identifier', 'flatbuffers_identifier_from_name(%r) = %s, the little-endian bytes of FNV-1a-32 of the name (zero mapped to the hash of the empty string) are %s'
                                  % (nm, b, fnv1a(nm).to_bytes(4, 'little').hex()), detail)
                    continue
            if klass == 'name_hash':
                nm = bytes.fromhex(m.split()[1]).split(b'\0')[0]
                if str(fnv1a(nm)) != b:
                    ctx.violation('name-hash', 'flatbuffers_type_hash_from_name(%r) = %s, FNV-1a-32 of the name is %d' % (nm, b, fnv1a(nm)), detail)
                    continue
            ctx.violation(key, 'model and implementation disagree on `%s`: model %s, impl %s' % (m, a, b), detail)
    for klass, line, want in acc_cases:
        a, b = mmap[line], ires.get(line)
        if b is not None and b.startswith('CRASH'):
            ctx.violation('crash:%s' % klass, 'sanitizer/crash in acceptor: ' + b[:300], {'harness_line': line, 'stderr': b})
            continue
        acc_i = None
        if b is not None:
            acc_i = b.startswith('OK') or b == '1'
        if want is not None and acc_i is not None and acc_i != want:
            f = line.split()
            ctx.violation('accept-iff:%s' % klass,
                          'acceptor %s %s a buffer whose stored identifier %s the requested one (%s)' % (
                              klass, 'accepts' if acc_i else 'rejects', 'differs from' if not want else 'equals / is waived by', f[-2]),
                          {'harness_line': line, 'expected_accept': want, 'impl': b, 'model': a})
        elif a != b:
            ctx.violation('corr:%s' % klass, 'model and implementation disagree on `%s`: model %s, impl %s' % (line[:120], a, b),
                          {'harness_line': line, 'model': a, 'impl': b})
    ctx.sample({'acceptor_case': acc_cases[0][1], 'model': mmap[acc_cases[0][1]], 'impl': ires.get(acc_cases[0][1])})
    ctx.sample({'name_case': cases[5][1], 'model': mmap[cases[5][1]], 'impl': ires.get(cases[5][2])})

    # ---- compile-time hashes: generated *_type_hash / *_type_identifier for generated schemas
    nsch = 12 if ctx.thorough else 3
    for si in range(nsch):
        decls, want = [], []
        used = set()
        if si == 0:
            for zn in ZERO_NAMES:
                parts = zn.decode().split('.')
                scope, name = parts[:-1], parts[-1]
                used.add(zn.decode())
                decls.append('namespace %s;\ntable %s { x:int; }\n' % ('.'.join(scope), name) if scope else 'namespace;\ntable %s { x:int; }\n' % name)
                want.append((scope, name))
        for ti in range(40):
            depth = rng.choice([0, 0, 1, 2, 3])
            scope = [''.join(chr(rng.choice(b'abcdefghijklmnopqrstuvwxyzABCDEFGHIJKLMNOPQRSTUVWXYZ')) for _ in range(rng.randint(1, 9))) for _ in range(depth)]
            name = 'T' + ''.join(chr(rng.choice(alphabet)) for _ in range(rng.choice([0, 1, 6, 7, 8, 14, 30, rng.randint(1, 62)])))
            q = '.'.join(scope + [name])
            if q in used: continue
            used.add(q)
            kind = rng.choice(['table', 'struct'])
            decls.append('namespace %s;\n%s %s { x:int; }\n' % ('.'.join(scope), kind, name) if scope else 'namespace;\n%s %s { x:int; }\n' % (kind, name))
            want.append((scope, name))
        p = os.path.join(ctx.bdir, 'hash%d.fbs' % si); open(p, 'w').write(''.join(decls))
        od = os.path.join(ctx.bdir, 'hash%d' % si)
        rc, out = ctx.gen(p, od, opts=())
        if rc != 0:
            ctx.violation('schema-rejected', 'flatcc rejected a generated schema of namespaces/tables: ' + out[:300], {'schema': ''.join(decls)})
            continue
        txt = open(os.path.join(od, 'hash%d_reader.h' % si)).read()
        lines = ['compile %s %s' % (hx(n.encode()), ','.join(hx(s.encode()) for s in sc) if sc else '-') for sc, n in want]
        res = ctx.run_model('ident', lines)
        for (sc, n), r in zip(want, res):
            cname = '_'.join(sc + [n])
            m1 = re.search(r'#define %s_type_hash \(\(flatbuffers_thash_t\)0x([0-9a-f]+)\)' % re.escape(cname), txt)
            m2 = re.search(r'#define %s_type_identifier "((?:\\x[0-9a-f]{2}){4})"' % re.escape(cname), txt)
            ctx.count('compile ' + cname, klass='compile_hash')
            if not m1 or not m2:
                ctx.violation('compile-hash-missing', 'generated reader lacks type hash for ' + cname, {'schema': ''.join(decls)}); continue
            gh = int(m1.group(1), 16); gid = m2.group(1).replace('\\x', '')
            mh, mid = r.split()
            ref = fnv1a('.'.join(sc + [n]).encode())
            if gh != ref or gid != ref.to_bytes(4, 'little').hex():
                ctx.violation('compile-hash', 'generated %s_type_hash=0x%x identifier=%s but FNV-1a-32("%s")=0x%x' % (cname, gh, gid, '.'.join(sc + [n]), ref),
                              {'schema': ''.join(decls), 'type': cname})
            elif str(gh) != mh or gid != mid:
                ctx.violation('corr:compile-hash', 'model %s vs generated %x %s' % (r, gh, gid), {'type': cname})
    ctx.sample({'compile_hash_case': lines[0], 'model': res[0]})

    # ---- generated typed-root API on types whose hash has an embedded zero byte
    from . import c17_typed
    c17_typed.typed_roots(ctx)

    ctx.trusted = lib.DEFAULT_TRUSTED + ['translators/cleaf_to_coq.py (T5: clang 14 -ast-dump=json of flatcc_identifier.h / verifier.c header functions -> coq/Generated/Leaf_ident.v; output must be proved equal to the hand model)', 'translators/consts_probe.c (T1: error codes and sizes from /repo headers)']
    ctx.assumptions = ['little-endian host', 'identifier strings are NUL-terminated C strings', 'uoffset_t is 32 bit (asserted by T1 constants)']
    ctx.finish_args = dict(
        rule='cases: names (lengths 1..64 incl. names searched to hash to small values / zero bytes), hash<->identifier conversions, '
             'buffers finished by the real builder for 13+ identifiers x plain/size-prefixed x struct alignments, each presented to every acceptor '
             '(verify header plain/with_size string/typed, has_identifier/has_type_hash, printer accept_header) with requested ids null/zero/equal/different/'
             'value-at-the-other-position, hand-made header edge sizes, generated namespace schemas through the fresh compiler. '
             'distinct = distinct request lines; non-trivial = every line reaches the function under test',
        explanation='theorems of Properties_C17 re-checked against regenerated constants; extracted model compared with implementation on every case; '
                    'acceptor verdicts also compared with the property statement (accept iff requested is null/zero or equals the stored identifier)')
