"""C14 - A reset builder behaves like a fresh one, with bounded memory.

1. T1: translators/reset_probe.c -> coq/Generated/ResetConsts.v (frame size, allocator minima, page size, ...);
   re-check Properties_C14.vo (theorems about Reset/BuilderState.v).
2. Correspondence: the extracted model (modelrun_reset, defects repaired = `F1`) and /repo's current runtime
   (harness/reset_hist.c, ASan+UBSan) execute the SAME histories: return value of every call, full state snapshots
   (all scalar fields of flatcc_builder_t, buffer capacities, emitter pool), emit streams, finalized bytes.
   A mismatch that the faithful transcription (`F0`) reproduces is attributed to the defect it belongs to.
3. The property itself, independent of the model: (prefix history, reset variant, reference build) -> finalized bytes
   must equal those of a freshly initialised builder; footprint (sum of iov_len, emitter capacity) after reset must be
   flat after warm-up over hundreds / thousands of iterations; no sanitizer report; vtables emitted once.
"""
import os, re, random
from . import lib
from .c14_util import (check_theorems, deep_build, CORE_FIELDS, Script, Gen, hx, reference_builds, json_docs, parse_snap, footprint, CAP_FIELDS, MODEL_FIELDS,
                       DEFECT_FIELDS, DEAD_FIELDS)

RESET_VARIANTS = ['rs:0:0', 'rs:1:0', 'rs:0:1', 'rs:1:1']


def gen_reset_consts(ctx):
    exe = os.path.join(ctx.bdir, 'reset_probe')
    ctx.cc([os.path.join(lib.ROOT, 'translators', 'reset_probe.c')] +
           [os.path.join(lib.REPO, 'src/runtime', f) for f in ('builder.c', 'emitter.c', 'refmap.c')], exe, opt='-O1')
    rc, out, err = lib.sh2([exe])
    if rc != 0: raise lib.CheckError('reset_probe failed: ' + err)
    if ctx.write_generated('Generated/ResetConsts.v', out):
        ctx.log('Generated/ResetConsts.v changed: dependent theorems are re-checked')
    consts = {m.group(1): int(m.group(2)) for m in re.finditer(r'Definition (\S+) : Z := (-?\d+)\.', out)}
    # The extracted model (ocaml/reset/model.ml) has the constants compiled in.  A model binary per set of constants is built in a
    # directory of its own (build/reset_model_<hash>): the constant definitions of model.ml are replaced by the values just read
    # (nothing shared is rewritten, so checks running against different trees at the same time do not disturb each other).
    import hashlib, shutil
    h = hashlib.md5(out.encode()).hexdigest()[:12]
    src = os.path.join(lib.ROOT, 'ocaml', 'reset')
    if not os.path.exists(os.path.join(src, 'model.ml')):
        lib.sh([os.path.join(lib.ROOT, 'bin', 'build_modelrun'), 'reset'], timeout=900)
    key = hashlib.md5(open(os.path.join(src, 'model.ml'), 'rb').read() + open(os.path.join(src, 'driver.ml'), 'rb').read()).hexdigest()[:8]
    d = os.path.join(lib.ROOT, 'build', 'reset_model_%s_%s' % (h, key))
    exe = os.path.join(d, 'modelrun_reset')
    if not os.path.exists(exe):
        tmp = d + '.tmp%d' % os.getpid()
        shutil.rmtree(tmp, ignore_errors=True); os.makedirs(tmp)
        def zlit(v):
            def pos(n): return 'XH' if n == 1 else ('XO (%s)' % pos(n >> 1) if n % 2 == 0 else 'XI (%s)' % pos(n >> 1))
            return 'Z0' if v == 0 else ('Zpos (%s)' % pos(v) if v > 0 else 'Zneg (%s)' % pos(-v))
        ml = open(os.path.join(src, 'model.ml')).read()
        for name, v in consts.items():
            on = name[0].lower() + name[1:]
            ml, n = re.subn(r'(\nlet %s =\n)(?:  .*\n)+' % re.escape(on), lambda m: m.group(1) + '  ' + zlit(v) + '\n', ml)
        open(os.path.join(tmp, 'model.ml'), 'w').write(ml)
        shutil.copy(os.path.join(src, 'model.mli'), tmp)
        open(os.path.join(tmp, 'driver.ml'), 'w').write(open(os.path.join(lib.ROOT, 'ocaml', 'zutil.ml.inc')).read() + '\n' + open(os.path.join(src, 'driver.ml')).read())
        rc, o = lib.sh('cd %s && (ocamlfind ocamlopt -O3 -w -a -package str -linkpkg model.mli model.ml driver.ml -o modelrun_reset 2>/dev/null || '
                       'ocamlfind ocamlopt -w -a -package str -linkpkg model.mli model.ml driver.ml -o modelrun_reset)' % tmp, timeout=900)
        if rc != 0 or not os.path.exists(os.path.join(tmp, 'modelrun_reset')): raise lib.CheckError('building the model for the current constants failed: ' + o[-1500:])
        try: os.rename(tmp, d)
        except OSError: shutil.rmtree(tmp, ignore_errors=True)
    ctx.modelrun = lambda area, _exe=exe: _exe
    return consts



def build_harness(ctx, name='reset_hist', extra_defs=(), ndebug=True, out_name=None):
    gdir = os.path.join(ctx.bdir, 'gen'); os.makedirs(gdir, exist_ok=True)
    rc, out = ctx.gen(os.path.join(lib.ROOT, 'gen', 'c14_schema.fbs'), gdir, opts=('-a', '--json'))
    if rc != 0: raise lib.BuildFailure('flatcc -a --json gen/c14_schema.fbs', out)
    # PORTABLE_UNALIGNED_ACCESS=0: the JSON parser's 8-byte symbol loads at odd addresses are an x86 idiom that UBSan's
    # alignment check reports; not this property's subject
    defs = (['-DNDEBUG'] if ndebug else []) + ['-DPORTABLE_UNALIGNED_ACCESS=0'] + list(extra_defs)
    objs = ctx.rt_objs(san=True, defs=defs)
    exe = ctx.cc([os.path.join(lib.ROOT, 'harness', name + '.c')] + objs, os.path.join(ctx.bdir, out_name or name), san=True,
                 defs=defs, incs=['-I' + gdir, '-I' + os.path.join(lib.ROOT, 'harness')])
    return exe


class Case:
    """One harness line. ops: list of tokens; model: whether the model can run it; cfg: 'e:a'."""
    __slots__ = ('klass', 'ops', 'model', 'cfg', 'meta', 'impl', 'mod')

    def __init__(self, klass, ops, model=True, cfg='0:0', meta=None):
        self.klass, self.ops, self.model, self.cfg, self.meta = klass, list(ops), model, cfg, meta or {}
        self.impl = self.mod = None

    def impl_line(self): return 'cfg:%s %s' % (self.cfg, ' '.join(self.ops))
    def model_line(self, fixed=True): return ('F1 ' if fixed else 'F0 ') + ' '.join(self.ops)


def settings_ops(rng):
    s = []
    if rng.random() < 0.3: s.append('cl:%d' % rng.randint(0, 1))
    if rng.random() < 0.3: s.append('vl:%d' % rng.choice([0, 8, 16, 64, 1000]))
    return s


def run(ctx):
    rng = ctx.rng
    consts = gen_reset_consts(ctx)
    ok = check_theorems(ctx, ['Generated/ResetConsts.v', 'Reset/BuilderState.v', 'Reset/ResetProofs.v', 'Properties/Properties_C14.v'])
    if not ok:
        ctx.broken_obligation('Properties_C14.vo', getattr(ctx, 'broken', {}))
    EP_DEFS = ['-DFLATCC_EMITTER_ALLOC=ep_alloc', '-DFLATCC_EMITTER_FREE=ep_free', '-DFLATCC_CALLOC=ep_calloc', '-DFLATCC_FREE=ep_gfree', '-include', os.path.join(lib.ROOT, 'harness', 'ep_alloc.h')]
    exe = build_harness(ctx, extra_defs=EP_DEFS)
    H = lib.Harness(exe, env={'ASAN_OPTIONS': 'detect_leaks=1:abort_on_error=0:allocator_may_return_null=1:max_allocation_size_mb=512'})

    if ctx.replay_in:
        import json
        rep = json.load(open(ctx.replay_in))
        line = rep.get('harness_line')
        if line:
            rc, res, err = H.run([line], timeout=300)
            ctx.log('replay harness rc=%s reply=%s' % (rc, (res[0] if res else '')[:2000]))
            if err: ctx.log('stderr: ' + err[:3000])
            if rep.get('model_line'):
                ctx.log('model: ' + ctx.run_model('reset', [rep['model_line']])[0][:2000])
            if rep.get('fresh_line'):
                rc2, res2, _ = H.run([rep['fresh_line']], timeout=300)
                ctx.log('fresh builder reply=%s' % ((res2[0] if res2 else '')[:2000]))
        return

    cases = []        # Case objects
    pairs = []        # (case_after_reset, case_fresh, description): last token of both is `fin`

    refs = reference_builds()
    refs_ho = []      # harness-only reference builds (union vectors, JSON, clone)
    docs = json_docs()
    ref_doc = docs[1]
    refs_ho.append(('json', Script(['jp:%s:0' % hx(ref_doc.encode())])))
    g_ho = Gen(random.Random(777), harness_only=True, max_depth=3)
    refs_ho.append(('union_vectors', g_ho.build(root='table')))

    def add_pair(klass, prefix_ops, reset_tok, ref_script, settings, model, cfg='0:0', meta=None):
        """prefix ; reset ; [snap] ; ref ; fin   versus   fresh: settings(if kept) ; ref ; fin"""
        a = Script(list(settings)); a.extend(Script(list(prefix_ops)))
        a.emit(reset_tok); a.emit('snap')
        a.extend(ref_script); a.emit('dir'); a.emit('fin'); a.emit('snap')
        # the settings in force after the final reset: last cl / vl / ml values not wiped by a reset with set_defaults
        eff = {}
        for t in list(settings) + list(prefix_ops) + [reset_tok]:
            f = t.split(':')
            if f[0] in ('cl', 'vl', 'ml'): eff[f[0]] = t
            elif f[0] == 'rs' and f[1] == '1': eff = {}
            elif f[0] == 'clr': eff = {}
        b = Script(list(eff.values())); b.emit('snap')
        b.extend(ref_script); b.emit('dir'); b.emit('fin')
        ca = Case(klass, a.ops, model, cfg, dict(meta or {}, reset=reset_tok))
        cb = Case(klass + ':fresh', b.ops, model, cfg)
        cases.append(ca); cases.append(cb)
        pairs.append((ca, cb))

    # ---------------------------------------------------------------- F1: random histories (model ops)
    nrand = 15000 if ctx.thorough else 800
    for i in range(nrand):
        g = Gen(rng, max_depth=rng.choice([2, 3, 4]))
        st = settings_ops(rng)
        prefix = Script()
        nb = rng.randint(1, 3)
        for b in range(nb):
            bs = g.build(root=rng.choice(['table', 'table', 'struct', 'struct_create']))
            kind = rng.choice(['complete', 'abandon', 'abandon'])
            if kind == 'abandon':
                bs = Script(bs.ops[:rng.randint(1, len(bs.ops))])
            prefix.extend(bs)
            if b < nb - 1:
                prefix.emit(rng.choice(RESET_VARIANTS)); prefix.emit('snap')
        ref = rng.choice(refs)[1]
        add_pair('random_history', prefix.ops, rng.choice(RESET_VARIANTS), ref, st, True, cfg=rng.choice(['0:0', '0:1', '1:1']))

    # ---------------------------------------------------------------- F2: abandon at every point of rich builds
    rich = []
    gr = Gen(random.Random(99), max_depth=4)
    rich.append(('model_rich', gr.build(root='table'), True))
    rich.append(('shared_vtables_nested', refs[-1][1], True))
    gh = Gen(random.Random(98), harness_only=True, max_depth=4)
    rich.append(('union_rich', gh.build(root='table'), False))
    for k in range(2):
        rich.append(('model_more%d' % k, Gen(random.Random(ctx.seed * 100 + k), max_depth=4).build(root='table'), True))
    if ctx.thorough:
        for k in range(30):
            rich.append(('model_rich%d' % k, Gen(random.Random(1000 + k), max_depth=4).build(root='table'), True))
            rich.append(('union_rich%d' % k, Gen(random.Random(2000 + k), harness_only=True, max_depth=4).build(root='table'), False))
    ri = 0
    for name, bs, model in rich:
        for cut in range(1, len(bs.ops) + 1):
            ref = refs[ri % len(refs)][1] if model else (refs + refs_ho)[ri % (len(refs) + len(refs_ho))][1]
            m2 = model and ref in [r[1] for r in refs]
            add_pair('abandon_every_point:' + name, bs.ops[:cut], RESET_VARIANTS[ri % 4], ref, [], m2, meta={'cut': cut})
            ri += 1

    # ---------------------------------------------------------------- F3: failed JSON parses (truncation at every byte)
    for di, doc in enumerate(docs):
        raw = doc.encode()
        step = 1 if (ctx.thorough or len(raw) < 120) else 2
        for n in list(range(0, len(raw), step)) + [len(raw)]:
            ref = (refs_ho + refs)[(di + n) % (len(refs_ho) + len(refs))][1]
            flags = 0
            add_pair('json_truncated:doc%d' % di, ['%s:%s:%d' % ('jr' if (n + di) % 2 else 'jp', hx(raw[:n]), flags)], RESET_VARIANTS[(n + di) % 4], ref, [], False,
                     meta={'doc': di, 'cut': n})
    # malformed JSON (type errors, duplicate unions, unknown union type)
    bad_docs = ['{"u_type":"A","u_type":"B"}', '{"u_type":"X","u":{}}', '{"uv_type":["A"],"uv":[{"a":1},{"a":2}]}',
                '{"u":{"a":1}}', '{"uv_type":["A","B"],"uv":[{"a":"x"}]}', '{"kids":[{"u_type":"A","u":{"a":1},"u":{"a":2}}]}']
    for bi, doc in enumerate(bad_docs):
        add_pair('json_malformed', ['jp:%s:0' % hx(doc.encode())], RESET_VARIANTS[bi % 4], refs_ho[0][1], [], False)
        add_pair('json_malformed', ['jr:%s:0' % hx(doc.encode())], RESET_VARIANTS[(bi + 1) % 4], refs[bi % len(refs)][1], [], False)
    # reference builds nested deeper than any limit a parser may have set temporarily (JSON nesting limit 100, verifier 100):
    # after failed / successful / truncated parses through both entry points, every reset variant
    deepref = Script(['GUARD']); deepref.extend(deep_build(150)); deepref.emit('REC')
    dpre = [['jr:%s:0' % hx(bad_docs[0].encode())], ['jr:%s:0' % hx(docs[1].encode()[:40])], ['jp:%s:0' % hx(bad_docs[3].encode())],
            ['jr:%s:0' % hx(docs[5].encode())], ['jr:%s:0' % hx(docs[7].encode()[:-9])], ['sb:0:0:0', 'st:1', 'st:1']]
    for pi, pre in enumerate(dpre):
        for rv in RESET_VARIANTS:
            add_pair('deep_after_json' if pre[0][:2] in ('jr', 'jp') else 'deep_after_abandon', pre, rv, deepref, [], False)

    # ---------------------------------------------------------------- F5: settings (max_level, cache limit, clustering, refmap, block align)
    deep = Script()
    deep.emit('sb:0:0:0')
    for d in range(6): deep.emit('st:1')          # nesting 7 levels
    def deep_to(lim):
        """start calls up to the first one that max_level = lim refuses (the API allows only reset / clear after a failed call)"""
        return ['sb:0:0:0'] + ['st:1'] * lim
    shallow = [r for r in refs if r[0] == 'struct_create'][0][1]     # needs no frame at all
    for lim in (1, 2, 3, 5, 7, 8, 40):
        add_pair('max_level', ['ml:%d' % lim] + deep_to(min(lim, 12)), 'rs:0:0', shallow if lim < 8 else refs[-1][1], [], True, meta={'max_level': lim})
        add_pair('max_level', ['ml:%d' % lim] + deep_to(min(lim, 12)), 'rs:1:1', refs[0][1], [], True, meta={'max_level': lim})
    # max_level set on a builder that has already allocated frames, lowered and raised
    add_pair('max_level_late', refs[0][1].ops + ['ml:2'] + deep_to(2), 'rs:1:0', refs[0][1], [], True)
    add_pair('max_level_late', deep.ops[:3] + ['ml:2', 'ml:0'] + deep.ops[3:] + ['ml:9', 'st:1', 'st:1', 'st:1'], 'rs:0:0', refs[-1][1], [], True)
    for lim in (1, 8, 12, 20, 64):
        for rname, ref in refs:
            add_pair('cache_limit', ['vl:%d' % lim] + refs[-1][1].ops, 'rs:0:0', ref, [], True, cfg='1:1')
    for cl in (0, 1):
        for rname, ref in refs:
            add_pair('clustering', ['cl:%d' % cl] + refs[-1][1].ops[:9], 'rs:0:0', ref, [], True, cfg='1:1')
    # block alignment: abandoned inside a buffer with block_align, reference = struct root created with block_align 0
    for ba in (8, 64, 256):
        for rname, ref in refs:
            add_pair('block_align', ['sb:0:%d:0' % ba, 'st:2'], 'rs:0:0', ref, [], True, meta={'block_align': ba})
    # refmap attached: inserts, clone of a finished buffer, reset
    add_pair('refmap', ['rm:1', 'ri:300'] + refs[0][1].ops[:5], 'rs:0:0', refs_ho[0][1], [], False)
    add_pair('refmap', ['rm:1', 'ri:5000', 'sb:0:0:0', 'st:2'], 'rs:0:1', refs[0][1], [], False)

    # ---------------------------------------------------------------- F5b: settings changed while the builder is IDLE (right after init, or right
    # after another reset), then the set_defaults reset variants, then a build that depends on the setting
    deep40 = Script(['GUARD']); deep40.extend(deep_build(40)); deep40.emit('REC')
    idle_settings = [['ml:3'], ['cl:0'], ['vl:8'], ['ml:5', 'cl:0', 'vl:12'], ['rm:1', 'ri:200'], ['id:1145258561'], ['ml:2', 'rm:1', 'ri:40']]
    def guarded(sc):
        g_ = Script(['GUARD']); g_.extend(sc); g_.emit('REC'); return g_
    dep_refs = [deep40, guarded(refs[-1][1]), guarded(rich[0][1]), guarded(refs[0][1])]
    for si, st_ in enumerate(idle_settings):
        for before in ([], ['rs:0:0'], ['rs:1:1'], refs[0][1].ops + ['rs:0:0']):
            for rv in ('rs:1:0', 'rs:1:1', 'rs:0:0'):
                for ri_, dr in enumerate(dep_refs):
                    if not ctx.thorough and (si + ri_ + len(before)) % 2: continue
                    add_pair('idle_settings_then_reset', list(before) + list(st_), rv, dr, [], False, meta={'settings': st_})

    # ---------------------------------------------------------------- F5c: the 64k table limit must not depend on the allocator's history:
    # tables pushed across the limit on a fresh builder, after a warm-up that grew the data stack beyond 64k (then any reset), and
    # below a large frame of the same buffer; refused at the same call everywhere (GUARD stops at the first refusal)
    def limit_table(kind, inner=False):
        t_ = Script()
        if kind == 'k1000':
            t_.emit('st:70')
            for i in range(68): t_.emit('ta:%d:1000:4:%s' % (i, 'ab' * 8))
        elif kind == 'k8':
            t_.emit('st:8300')
            for i in range(8250): t_.emit('ta:%d:8:8:0102030405060708' % i)
        elif kind == 'offsets':
            sref = t_.emit('cS:6162'); t_.emit('st:16500')
            for i in range(16420): t_.emit('to:%d:$%d' % (i, sref))
        elif kind == 'huge_field':
            t_.emit('st:3'); t_.emit('ta:0:4:4:01000000'); t_.emit('ta:1:70000:4:' + 'cd' * 16); t_.emit('ta:2:65531:1:' + 'ef' * 16)
        elif kind == 'mixed':
            t_.emit('st:40')
            for i in range(3): t_.emit('ta:%d:20000:8:%s' % (i, '99' * 8))
            for i in range(3, 30): t_.emit('ta:%d:%d:4:%s' % (i, (1, 2, 4, 400, 1500)[i % 5], '77' * 4))
        t_.emit('et')
        if inner:
            # a child frame (string) is opened and closed while the table is open: exit_frame recomputes the parent's data stack window
            # from the CHILD's type limit, so the window of the open table may exceed 64k from here on
            j = next(i for i, x in enumerate(t_.ops) if x.startswith('st:')) + 1
            cnt = int(t_.ops[j - 1].split(':')[1])
            def shift(tok, n): return re.sub(r'\$(\d+)', lambda m: '$' + str(int(m.group(1)) + n if int(m.group(1)) >= j else int(m.group(1))), tok)
            t_.ops = t_.ops[:j] + ['sS', 'aS:696e6e6572', 'eS', 'to:%d:$%d' % (cnt - 1, j + 2)] + [shift(x, 4) for x in t_.ops[j:]]
        return t_
    def limit_build(kind, below_big_frame=False, inner=False):
        b_ = Script(['GUARD']); b_.emit('sb:0:0:0')
        if below_big_frame:
            # a 100 kB string is started and ended first in the same buffer: the data stack window is already larger than 64k
            b_.emit('st:2'); b_.emit('sS'); b_.emit('aS:' + '41' * 100000); sk = b_.emit('eS'); b_.emit('to:0:$%d' % sk)
        b_.extend(limit_table(kind, inner))
        b_.emit('REC')
        return b_
    warm = ['sb:0:0:0', 'st:1', 'sS', 'aS:' + '42' * 100000, 'eS', 'to:0:$4', 'et', 'eb:$6']
    warm_v = ['sb:0:0:0', 'sv:1:1:4294967295', 'xv:90000:' + '43' * 90000]          # abandoned inside a 90 kB vector
    li = 0
    for kind in ('k1000', 'k8', 'offsets', 'huge_field', 'mixed'):
        for pre in ([], warm, warm_v):
            for rv in (RESET_VARIANTS if ctx.thorough else (RESET_VARIANTS[li % 4],)):
                li += 1
                add_pair('table_limit', pre, rv, limit_build(kind), [], kind in ('k1000', 'huge_field', 'mixed'), meta={'kind': kind})   # the extracted model is quadratic in the table size
        for pre in ([], warm, warm_v):
            li += 1
            add_pair('table_limit', pre, RESET_VARIANTS[li % 4], limit_build(kind, inner=True), [], kind in ('k1000', 'huge_field', 'mixed'), meta={'kind': kind, 'inner_child': True})
        add_pair('table_limit', [], 'rs:0:0', limit_build(kind, below_big_frame=True, inner=True), [], kind in ('k1000', 'huge_field', 'mixed'), meta={'kind': kind, 'below_big_frame': True, 'inner_child': True})
        add_pair('table_limit', [], 'rs:0:0', limit_build(kind, below_big_frame=True), [], kind in ('k1000', 'huge_field', 'mixed'), meta={'kind': kind, 'below_big_frame': True})

    # ---------------------------------------------------------------- F6: pooled emitter pages reused at BOTH ends after reset
    def many_vtables(ntab, first=0):
        """top-level buffer with ntab tables of pairwise distinct vtables (table i has its single field at id i): the clustered
        vtables push 4 + 2 * (i + 1) bytes each at the back of the buffer"""
        s = Script(); s.emit('sb:0:0:0'); ks = []
        for i in range(first, first + ntab):
            s.emit('st:%d' % (i + 1)); s.emit('ta:%d:1:1:%02x' % (i, (i * 7 + 1) & 255)); ks.append(s.emit('et'))
        s.emit('so')
        for a in range(0, len(ks), 50): s.emit('xo:' + ','.join('$%d' % k for k in ks[a:a + 50]))
        v = s.emit('eo'); s.emit('st:1'); s.emit('to:0:$%d' % v); r = s.emit('et'); s.emit('eb:$%d' % r)
        return s
    def big_front(nbytes):
        return Script(['sb:0:0:0', 'st:1', 'cv:%s:%d:1:1:4294967295' % ('a5' * nbytes, nbytes), 'to:0:$2', 'et', 'eb:$4'])
    back_refs = [many_vtables(45), many_vtables(80), many_vtables(60, first=3)]
    if ctx.thorough: back_refs += [many_vtables(120), many_vtables(200)]
    bi = 0
    for nb in ((9000, 20000, 40000) if not ctx.thorough else (6000, 9000, 12000, 20000, 40000, 100000)):
        for bref in back_refs:
            for rv in RESET_VARIANTS:
                bi += 1
                if not ctx.thorough and bi % 2: continue
                add_pair('pool_pages_back_growth', big_front(nb).ops, rv, bref, [], True, cfg='0:0' if bi % 4 else '1:1', meta={'first_build_bytes': nb})
    # and the mirror image: large back first, then large front
    add_pair('pool_pages_back_growth', many_vtables(120).ops, 'rs:0:0', big_front(15000), [], True)
    add_pair('pool_pages_back_growth', many_vtables(120).ops, 'rs:0:1', many_vtables(90), [], True)

    for nb in (3000, 10000, 100000):
        for rv in RESET_VARIANTS:
            for rr_ in (refs[0][1], refs[3][1]):
                add_pair('direct_buffer_after_big_build', big_front(nb).ops, rv, rr_, [], True, cfg='0:0' if nb != 10000 else '1:1', meta={'first_build_bytes': nb})
    # ---------------------------------------------------------------- F7: an allocator that really honours reduce_buffers
    for name, bs, model in rich[:2]:
        for cut in range(2, len(bs.ops), 3):
            a = Script(bs.ops[:cut]); a.emit('rs:0:1'); a.emit('snap'); a.extend(refs[0][1]); a.emit('fin'); a.emit('snap')
            b = Script(); b.extend(refs[0][1]); b.emit('fin')
            ca, cb = Case('reducing_allocator', a.ops, False, '0:2', {'cut': cut}), Case('reducing_allocator:fresh', b.ops, False, '0:2')
            cases += [ca, cb]; pairs.append((ca, cb))

    # an allocator that MOVES every block on every call (also when shrinking) + reducing reset, after histories that grew the vtable stack
    # and the patch log (wide tables nested in open wide tables)
    def wide_open(depth, width):
        s_ = Script(); s_.emit('sb:0:0:0')
        for d in range(depth):
            s_.emit('st:%d' % width)
            for i in range(0, width - 1, 2): s_.emit('ta:%d:4:4:%02x000000' % (i, i & 255))
        return s_
    for depth, width in ((3, 40), (6, 120), (2, 400)):
        for cut_tail in (0, 1):
            w = wide_open(depth, width)
            if cut_tail == 0:        # completed: close everything
                k = w.emit('et')
                for d in range(depth - 1):
                    w.emit('to:%d:$%d' % (width - 1, k)); k = w.emit('et')
                w.emit('eb:$%d' % k)
            for rv in ('rs:0:1', 'rs:1:1'):
                for rr_ in (refs[0][1], refs[-1][1]):
                    a = Script(w.ops); a.emit(rv); a.emit('snap'); a.extend(rr_); a.emit('fin'); a.emit('snap')
                    b = Script(); b.emit('snap'); b.extend(rr_); b.emit('fin')
                    ca, cb = Case('reducing_allocator', a.ops, False, '0:2', {'reset': rv}), Case('reducing_allocator:fresh', b.ops, False, '0:2')
                    cases += [ca, cb]; pairs.append((ca, cb))

    # ---------------------------------------------------------------- F4: footprint over many iterations
    iters = 3000 if ctx.thorough else 300
    fp_cases = []
    # Stage 1 (before any long series is even generated): the same build followed by reset, 10 times, for EVERY reset variant; the
    # footprint at the allocator level (sum of iov_len of B->buffers, emitter capacity and live pages, refmap buckets) after the
    # k-th reset must not exceed the footprint after the FIRST reset of the same build.  A body that grows is reported with a replay
    # cut at the first growth and gets no long series (nothing is left to eat memory).
    fp_growing = set()
    def stage1(bodies):
        lines, meta_ = [], []
        for klass, body in bodies:
            for rv in RESET_VARIANTS:
                sc = Script()
                for it in range(10):
                    sc.extend(Script(body)); sc.emit(rv); sc.emit('snap')
                lines.append('cfg:0:0 ' + ' '.join(sc.ops)); meta_.append((klass, body, rv, sc.ops))
        reps = lib.run_harness_resilient(H, lines, timeout=600)
        ctx.log('footprint stage 1: %d short series' % len(lines))
        for (klass, body, rv, ops_), rep, l in zip(meta_, reps, lines):
            ctx.count(l, klass='footprint_stage1')
            if 'CRASH' in rep:
                fp_growing.add(klass)
                ctx.violation('crash:footprint:' + klass, 'footprint series of `%s` with %s: %s' % (klass, rv, rep[:300]), {'harness_line': l}); continue
            snaps = [parse_snap(t) for t in rep.split() if t.startswith('{')]
            if not snaps: continue
            def fp(x): return {**{f: int(x[f]) for f in CAP_FIELDS}, 'e_cap': int(x['e_cap']), 'e_live_pages': max(0, int(x.get('e_live', 0))) // 1000,
                               'rm_buckets': int(x.get('rm_buckets', 0)), 'calloc_live_bytes': max(0, int(x.get('c_live_bytes', 0)))}
            f1 = fp(snaps[0])
            for k in range(1, len(snaps)):
                fk = fp(snaps[k])
                grown = [f for f in fk if fk[f] > f1[f]]
                if grown:
                    f = grown[0]
                    fp_growing.add(klass)
                    key = 'refmap-table-leak' if f == 'calloc_live_bytes' else ({'c_us': 'user-frame-leak', 'c_ds': 'ds-first-leak'}.get(f, 'footprint-growth:' + f) if rv.endswith(':0') else 'footprint-growth-reducing-reset:' + f)
                    cut = [j for j, t in enumerate(ops_) if t == 'snap'][k]
                    ctx.violation(key, 'footprint after reset grows with the number of earlier builds: `%s` with %s: %s is %d after the first and %d after reset %d '
                                       '(total %d -> %d bytes)' % (klass, rv, f, f1[f], fk[f], k + 1, sum(f1[x] for x in CAP_FIELDS), sum(fk[x] for x in CAP_FIELDS)),
                                  {'harness_line': 'cfg:0:0 ' + ' '.join(ops_[:cut + 1]), 'class': klass, 'reset': rv, 'field': f, 'after_first_reset': f1, 'after_reset_%d' % (k + 1): fk})
                    break
    def add_fp(klass, body_ops, model, reset_tok='rs:0:0', n=iters, cfg='0:0'):
        if klass in fp_growing: return
        s = Script()
        marks = {}
        for it in range(n):
            s.extend(Script(body_ops)); s.emit(reset_tok)
            if it + 1 in (n // 4, n // 2, n):
                marks[it + 1] = s.emit('snap')
        c = Case('footprint:' + klass, s.ops, model, cfg, {'marks': marks, 'n': n})
        cases.append(c); fp_cases.append(c)
    nested_ab = ['sb:0:0:0', 'st:3', 'ta:0:4:4:01000000', 'ta:1:4:4:02000000', 'st:3']
    stage1([('abandoned_user_frame', ['sb:0:0:0', 'st:4', 'uf:100']), ('abandoned_nested_table', nested_ab), ('abandoned_nested_table_reduce', nested_ab),
            ('completed_build', refs[-1][1].ops), ('completed_build_reduce', refs[0][1].ops), ('deep_abandoned', deep.ops),
            ('cache_limited', ['vl:16'] + refs[-1][1].ops), ('failed_json_union', ['jp:%s:0' % hx(docs[1].encode()[:len(docs[1]) * 2 // 3])]),
            ('failed_json_union_vector', ['jr:%s:0' % hx(docs[3].encode()[:len(docs[3]) * 3 // 4])]),
            ('failed_json_deep', ['jp:%s:0' % hx(docs[7].encode()[:len(docs[7]) - 12])]), ('completed_json', ['jr:%s:0' % hx(docs[5].encode())]),
            ('big_vector', ['sb:0:0:0', 'st:1', 'cv:%s:5000:1:1:4294967295' % ('77' * 5000), 'to:0:$2', 'et', 'eb:$4']),
            ('refmap_clone', ['rm:1', 'ri:500', 'sb:0:0:0', 'st:2']),
            ('refmap_many_then_few', ['rm:1', 'ri:200', 'rs:0:0', 'ri:2']), ('refmap_6_then_1', ['rm:1', 'sb:0:0:0', 'ri:6', 'rs:0:0', 'sb:0:0:0', 'ri:1']),
            ('refmap_few_then_many', ['rm:1', 'ri:3', 'rs:0:1', 'ri:40', 'rs:1:0', 'ri:1'])])
    add_fp('abandoned_user_frame', ['sb:0:0:0', 'st:4', 'uf:100'], True)
    add_fp('abandoned_nested_table', ['sb:0:0:0', 'st:3', 'ta:0:4:4:01000000', 'ta:1:4:4:02000000', 'st:3'], True)
    add_fp('abandoned_nested_table_reduce', ['sb:0:0:0', 'st:3', 'ta:0:4:4:01000000', 'ta:1:4:4:02000000', 'st:3'], True, 'rs:0:1')
    add_fp('completed_build', refs[-1][1].ops, True)
    add_fp('completed_build_reduce', refs[0][1].ops, True, 'rs:1:1')
    add_fp('deep_abandoned', deep.ops, True)
    add_fp('cache_limited', ['vl:16'] + refs[-1][1].ops, True)
    add_fp('failed_json_union', ['jp:%s:0' % hx(docs[1].encode()[:len(docs[1]) * 2 // 3])], False)
    add_fp('failed_json_union_vector', ['jp:%s:0' % hx(docs[3].encode()[:len(docs[3]) * 3 // 4])], False)
    add_fp('failed_json_deep', ['jp:%s:0' % hx(docs[7].encode()[:len(docs[7]) - 12])], False, 'rs:0:1')
    add_fp('completed_json', ['jp:%s:0' % hx(docs[5].encode())], False)
    # the emitter's pool must trim: one build of several pages, then many small builds (the usage average decays below half the capacity)
    def add_pool(klass, big_bytes, small_ops, n, reset_tok='rs:0:0', cfg='0:0'):
        if fp_growing: return      # stage 1 found a growing footprint: no long series with many resets
        s = Script(); marks = {}
        s.extend(Script(['sb:0:0:0', 'st:1', 'cv:%s:%d:1:1:4294967295' % ('5a' * big_bytes, big_bytes), 'to:0:$2', 'et', 'eb:$4'])); s.emit(reset_tok); s.emit('snap')
        for it in range(n):
            s.extend(Script(small_ops)); s.emit(reset_tok); s.emit('snap')
        s.emit('clr'); s.emit('snap')
        # the extracted model recurses over the byte lists (OCaml stack): above 150 kB the implementation is checked alone
        c = Case('footprint:' + klass, s.ops, big_bytes <= 150000, cfg, {'n': n, 'pool': True})
        cases.append(c); pool_cases.append(c)
    pool_cases = []
    add_pool('pool_trim_20k', 20000, refs[0][1].ops, 40)
    add_pool('pool_trim_60k_reduce', 60000, refs[-1][1].ops, 40, 'rs:0:1')
    add_pool('pool_trim_9k_custom_emitter', 9000, refs[0][1].ops, 30, 'rs:1:0', cfg='1:1')
    if ctx.thorough:
        for kb in (3, 6, 12, 100, 300):
            add_pool('pool_trim_%dk' % kb, kb * 1000, refs[kb % len(refs)][1].ops, 60, RESET_VARIANTS[kb % 4])
    # random mixture
    gm = Gen(random.Random(ctx.seed * 7 + 1), max_depth=4)
    mix = Script()
    for it in range(0 if fp_growing else iters // 3):
        bs = gm.build(root='table')
        if it % 2: bs = Script(bs.ops[:random.Random(it).randint(1, len(bs.ops))])
        mix.extend(bs); mix.emit(RESET_VARIANTS[it % 4])
        if it + 1 in (iters // 6, iters // 3): mix.emit('snap')
    cases.append(Case('footprint:random_mixture', mix.ops, True, '0:0', {'mix': True})); fp_mix = cases[-1]

    # ---------------------------------------------------------------- run both sides
    for c in cases: ctx.count(c.impl_line(), klass=c.klass.split(':')[0])
    ctx.log('%d histories (%d with model), %d ops' % (len(cases), sum(1 for c in cases if c.model), sum(len(c.ops) for c in cases)))
    ires = lib.run_harness_resilient(H, [c.impl_line() for c in cases], timeout=1200)
    mcases = [c for c in cases if c.model]
    mres = ctx.run_model('reset', [c.model_line(True) for c in mcases], timeout=1200)
    def strip_eplive(c, r):
        m = re.search(r'\s*EPLIVE=(-?\d+)\s*$', r)
        if m:
            c.meta['eplive'] = int(m.group(1)); r = r[:m.start()]
        return r
    for c, r in zip(cases, ires): c.impl = strip_eplive(c, r)
    for c, r in zip(mcases, mres): c.mod = r
    ctx.sample({'history': cases[0].impl_line()[:300], 'impl': (cases[0].impl or '')[:200], 'model': (cases[0].mod or '')[:200]})

    def crash_key(c):
        txt = c.impl
        if 'enter_frame' in txt and ('SEGV' in txt or 'null pointer' in txt or 'applying non-zero offset' in txt or 'heap-buffer-overflow' in txt): return 'set-max-level-null-frame'
        if 'heap-use-after-free' in txt and 'create_cached_vtable' in txt: return 'vtable-cache-uaf'
        if c.cfg.endswith(':2') and 'heap-buffer-overflow' in txt: return 'ds-first-leak'
        if c.klass.startswith('json') and ('parse_json' in txt or 'json_parser' in txt): return 'json-union-vector-truncated'
        m = re.search(r'ERROR: (\S+): (\S+)', txt)
        return 'crash:%s:%s' % (c.klass.split(':')[0], m.group(2) if m else 'unknown')

    # ---------------------------------------------------------------- crashes / sanitizer reports
    for c in cases:
        if c.impl.startswith('CRASH') or ' CRASH' in c.impl:
            ctx.violation(crash_key(c), 'sanitizer report / crash of the runtime in a %s history: %s' % (c.klass, c.impl[:300]),
                          {'harness_line': c.impl_line(), 'class': c.klass, 'stderr': c.impl[:1500]})

    # ---------------------------------------------------------------- correspondence model <-> implementation
    def norm(line):
        out = []
        for t in line.split():
            if t.startswith('{'):
                d = parse_snap(t); t = '{' + ','.join('%s=%s' % (f, d.get(f)) for f in MODEL_FIELDS) + '}'
            out.append(t)
        return out
    need_f0 = []
    for c in mcases:
        if c.impl.startswith('CRASH'): continue
        if norm(c.impl) != norm(c.mod):
            need_f0.append(c)
    f0 = {}
    if need_f0:
        r0 = ctx.run_model('reset', [c.model_line(False) for c in need_f0], timeout=1200)
        f0 = {id(c): r for c, r in zip(need_f0, r0)}
    ncorr = 0
    for c in need_f0:
        a, m, z = norm(c.impl), norm(c.mod), norm(f0[id(c)])
        if 'CRASH' in c.impl: continue
        keys, unexplained, first, mism = set(), [], None, set()
        for j in range(max(len(a), len(m))):
            x = a[j] if j < len(a) else None; y = m[j] if j < len(m) else None; w = z[j] if j < len(z) else None
            if x == y: continue
            tok = c.ops[j] if j < len(c.ops) else '?'
            if x is not None and y is not None and x.startswith('{') and y.startswith('{'):
                dx, dy, dw = parse_snap(x), parse_snap(y), parse_snap(w or '{}')
                for f in MODEL_FIELDS:
                    if dx.get(f) == dy.get(f): continue
                    if first is None: first = (j, tok, f, dx.get(f), dy.get(f))
                    mism.add(f)
                    if dx.get(f) == dw.get(f):
                        # the faithful transcription of the pinned commit behaves the same: a defect custom_reset / set_max_level still has
                        if f in DEFECT_FIELDS: keys.add(DEFECT_FIELDS[f])
                        elif f in ('limit_level', 'frame_ptr'): keys.add('set-max-level-null-frame')
                    else: unexplained.append((j, tok, f, dx.get(f), dy.get(f)))
            else:
                if first is None: first = (j, tok, 'value', x, y)
                mism.add('value')
                if x != w: unexplained.append((j, tok, 'value', x, y))
            if len(unexplained) > 5: break
        if unexplained:
            # a vtable emitted twice (cache keyed by the hash of the add sequence)? re-run with the recording emitter and count
            probe = []
            for t in c.ops:
                if t.split(':')[0] in ('rs', 'clr'): probe.append('nvt')
                if t not in ('snap', 'fin'): probe.append(t)
            probe.append('nvt')
            pr = lib.run_harness_resilient(H, ['cfg:1:1 ' + ' '.join(probe)])[0].split()
            dup = [t for t in pr if re.fullmatch(r'\d+/\d+', t) and t.split('/')[0] != t.split('/')[1]]
            if dup:
                ctx.violation('vtable-emitted-twice', 'a top-level buffer without cache limit contains the same vtable more than once (vtable emits / distinct contents = %s); '
                              'the model emits it once' % dup[0], {'harness_line': 'cfg:1:1 ' + ' '.join(probe), 'model_line': c.model_line(True)})
                continue
            ncorr += 1
            j, tok, f, x, y = unexplained[0]
            POLICY = set(CAP_FIELDS) | {'ds_limit', 'limit_level', 'ht_width', 'frame_ptr', 'vd_end'}
            if all(u[2] in POLICY for u in unexplained):
                # only the sizing policy of flatcc_builder_default_alloc (a separate obligation: the allocator model of BuilderState.v,
                # tied by these capacity snapshots) differs; the property does not fix buffer sizes, no failing input for it was found
                ctx.broken_obligation('default-alloc-policy-model', {'first_difference': {'op_index': j, 'op': tok, 'field': f, 'impl': x, 'model': y},
                                      'harness_line': c.impl_line()[:4000], 'model_line': c.model_line(True)[:4000]})
                continue
            ctx.violation('corr:%s:%s' % (c.klass.split(':')[0], f),
                          'model and implementation disagree at op %d `%s` (%s): impl %s, model %s' % (j, tok, f, str(x)[:80], str(y)[:80]),
                          {'harness_line': c.impl_line(), 'model_line': c.model_line(True), 'op_index': j, 'field': f, 'impl': x, 'model': y})
        else:
            # explained by the unrepaired behaviour: report the defect (reset_equiv fails on the implementation)
            j, tok, f, x, y = first
            if not keys:
                if mism <= DEAD_FIELDS:
                    # only fields that are dead at level 0 (always overwritten before they are read): no property consequence
                    if len(ctx.notes) < 5: ctx.notes.append('custom_reset leaves dead per-build fields set (%s) in: %s' % (sorted(mism), c.impl_line()[:200]))
                    continue
                keys = {'set-max-level-null-frame'} if any(t.startswith('ml:') for t in c.ops[:j + 1]) else {'unrepaired-reset-state:' + f}
            for k in sorted(keys):
                ctx.violation(k, 'after reset the builder differs from a freshly initialised one (first difference at op %d `%s`: %s is %s, fresh %s); '
                                 'the transcription of the pinned commit behaves the same' % (j, tok, f, str(x)[:60], str(y)[:60]),
                              {'harness_line': c.impl_line(), 'model_line': c.model_line(True), 'op_index': j, 'field': f, 'impl': x, 'repaired_model': y})
    ctx.log('correspondence: %d histories differ from the repaired model, %d unexplained' % (len(need_f0), ncorr))

    # ---------------------------------------------------------------- property: bytes after reset == bytes of a fresh builder
    nbytes = 0
    for ca, cb in pairs:
        if ca.impl.startswith('CRASH') or cb.impl.startswith('CRASH') or 'CRASH' in ca.impl: continue
        ta, tb = ca.impl.split(), cb.impl.split()
        if len(ta) < 2 or not tb: continue
        fa, fb = ta[-2], tb[-1]
        nbytes += 1
        # flatcc_builder_get_direct_buffer right before finalize: same NULL-ness / size as on the fresh builder, bytes equal to the copy
        if len(ta) >= 3 and len(tb) >= 2 and ta[-3].startswith('D:') and tb[-2].startswith('D:'):
            da, db = ta[-3].replace('D:0:ok', 'D:null'), tb[-2].replace('D:0:ok', 'D:null')     # an empty buffer has no address to compare
            if da != db or da.endswith(':diff'):
                ctx.violation('direct-buffer-differs-after-reset', 'after %s (%s) flatcc_builder_get_direct_buffer gives %s for the reference build, on a fresh builder %s' % (
                                  ca.klass, ca.meta.get('reset'), da, db), {'harness_line': ca.impl_line()[:6000], 'fresh_line': cb.impl_line()[:6000]})
        if ca.klass == 'table_limit':
            # same outcome of every call of the reference build (which call is refused) as on the fresh builder
            na = len(tb) - 1 - next(i for i, t in enumerate(tb) if t.startswith('{'))      # tokens after the fresh builder's snapshot
            ra, rb = [x for x in ta[-2 - (na - 1):-2] if not x.startswith('D:')], [x for x in tb[-1 - (na - 1):-1] if not x.startswith('D:')]   # the direct buffer has its own oracle
            if ra != rb:
                j = next((i for i, (x, y) in enumerate(zip(ra, rb)) if x != y), 0)
                ctx.violation('table-limit-depends-on-history', 'after %s (%s) call %d of the reference table build returns %s, on a fresh builder %s: the 64k table limit depends on earlier activity' % (
                                  ca.klass, ca.meta.get('reset'), j, ra[j], rb[j]), {'harness_line': ca.impl_line()[:6000], 'fresh_line': cb.impl_line()[:6000], 'kind': ca.meta.get('kind')})
        # reset_equiv observed directly: state right after reset vs. state of the freshly initialised (and configured) builder
        sa = [parse_snap(t) for t in ta if t.startswith('{')]
        sb_ = [parse_snap(t) for t in tb if t.startswith('{')]
        if len(sa) >= 2 and sb_ and not (ca.cfg.endswith(':2')):
            ar, fr0 = sa[-2], sb_[0]
            bad = [f for f in CORE_FIELDS if ar.get(f) != fr0.get(f)]
            if bad:
                f = bad[0]
                key = DEFECT_FIELDS.get(f, 'reset-state-differs:' + f)
                ctx.violation(key, 'after %s (%s) the builder field %s is %s; a freshly initialised builder with the same settings has %s' % (
                                  ca.klass, ca.meta.get('reset'), f, ar.get(f), fr0.get(f)),
                              {'harness_line': ca.impl_line(), 'fresh_line': cb.impl_line(), 'fields': {x: (ar.get(x), fr0.get(x)) for x in bad}})
        if fb in ('FINFAIL', 'COPYFAIL') or (fb == '-' and not cb.klass.startswith('json') and not cb.klass.startswith('idle_settings') and not cb.klass.startswith('table_limit')):
            ctx.violation('reference-build-failed:' + cb.klass, 'reference build on a fresh builder produced no buffer', {'harness_line': cb.impl_line()})
            continue
        if fa != fb:
            sn = None
            for t in ta:
                if t.startswith('{'): sn = parse_snap(t)   # last snapshot before the reference build is the first one after reset
            snaps = [parse_snap(t) for t in ta if t.startswith('{')]
            after_reset = snaps[-2] if len(snaps) >= 2 else (snaps[0] if snaps else {})
            if after_reset.get('block_align', '0') != '0': key = 'stale-block-align'
            else: key = 'reset-bytes-differ:' + ca.klass.split(':')[0]
            ctx.violation(key, 'after %s (%s) the reference build yields %d bytes that differ from the %d bytes of a fresh builder' % (
                              ca.klass, ca.meta.get('reset'), len(fa) // 2, len(fb) // 2),
                          {'harness_line': ca.impl_line(), 'fresh_line': cb.impl_line(), 'after_reset': fa[:400], 'fresh': fb[:400],
                           'state_after_reset': after_reset})
    ctx.sample({'bytes_pairs_compared': nbytes})

    # ---------------------------------------------------------------- property: vtables once per buffer (clustered, no limit)
    # (emit streams of recording-emitter cases are compared with the model's by the token comparison above)
    nvt_cases = []
    for rname, ref in refs + [('rich', rich[0][1])]:
        s = Script(['sb:0:0:0', 'st:1', 'rs:0:0']); s.extend(ref); s.emit('nvt'); s.emit('evs')
        nvt_cases.append(Case('vtable_once', s.ops, True, '1:1'))
    # identical vtables reached through different add sequences (other field order, a 2-byte scalar in the slot of a 4-byte offset)
    for ops in (['sb:0:0:2', 'st:3', 'st:2', 'ta:1:2:2:d94d', 'ta:0:4:4:30bfaf13', 'et', 'to:1:$5', 'ta:0:4:4:6575aa8b', 'et', 'eb:$8'],
                ['sb:0:0:0', 'st:2', 'ta:0:4:4:01000000', 'ta:1:4:4:02000000', 'et', 'st:2', 'ta:1:4:4:03000000', 'ta:0:4:4:04000000', 'et',
                 'so', 'xo:$4,$8', 'eo', 'st:1', 'to:0:$11', 'et', 'eb:$14']):
        s = Script(); s.extend(Script(ops)); s.emit('nvt'); s.emit('evs')
        nvt_cases.append(Case('vtable_once', s.ops, True, '1:1'))
    # the same vtable shapes used in the parent, in a nested buffer, in the parent again, in sibling and doubly nested buffers
    SHAPES = [['ta:0:4:4:%s'], ['ta:1:2:2:%s'], ['ta:0:4:4:%s', 'ta:2:4:4:%s'], []]
    def shape_table(s, sh, count=3):
        s.emit('st:%d' % count)
        for f in SHAPES[sh]:
            n = int(f.split(':')[2]); s.emit(f % ('11' * n))
        return s.emit('et')
    def wrap(s, refs_):
        s.emit('so'); s.emit('xo:' + ','.join('$%d' % k for k in refs_)); v = s.emit('eo')
        s.emit('st:4'); s.emit('to:3:$%d' % v); return s.emit('et')
    def nested(s, shapes, inner=None):
        s.emit('sb:0:0:0')
        ks = [shape_table(s, sh) for sh in shapes]
        if inner is not None: ks.append(inner(s))
        r = wrap(s, ks)
        nb = s.emit('eb:$%d' % r)
        s.emit('st:4'); s.emit('to:1:$%d' % nb); return s.emit('et')      # the nested buffer sits in a table field
    def interleave(plan, settings=()):
        s = Script(list(settings)); s.emit('sb:0:0:0'); ks = []
        for item in plan:
            if isinstance(item, int): ks.append(shape_table(s, item))
            elif item[0] == 'N': ks.append(nested(s, item[1]))
            else: ks.append(nested(s, item[1], inner=lambda s_, it=item: nested(s_, it[2])))
        r = wrap(s, ks); s.emit('eb:$%d' % r); s.emit('nvt'); s.emit('evb')
        return s
    plans = [[0, ('N', [0]), 0], [0, 1, ('N', [0, 1]), 0, 1, ('N', [1, 0]), 1, 0], [('N', [0]), 0, ('N', [0]), 0],
             [2, ('NN', [2, 0], [0, 2]), 2, 0, ('N', [2]), 2], [3, ('N', [3, 3]), 3, 0, 0, ('NN', [0], [0]), 0]]
    rngp = random.Random(ctx.seed * 13 + 5)
    for _ in range(60 if ctx.thorough else 10):
        pl = []
        for _ in range(rngp.randint(3, 9)):
            x = rngp.random()
            if x < 0.5: pl.append(rngp.randint(0, 3))
            elif x < 0.85: pl.append(('N', [rngp.randint(0, 3) for _ in range(rngp.randint(1, 3))]))
            else: pl.append(('NN', [rngp.randint(0, 3) for _ in range(rngp.randint(1, 2))], [rngp.randint(0, 3) for _ in range(rngp.randint(1, 2))]))
        plans.append(pl)
    for pi, pl in enumerate(plans):
        for st_ in ([], ['cl:0']) if pi < 5 or pi % 3 == 0 else ([],):
            nvt_cases.append(Case('vtable_once_nested', interleave(pl, st_).ops, True, '1:1'))
        # and after a reset that followed a build using the same shapes
        if pi < 5:
            pre = interleave(pl).ops[:-2]
            s2 = Script(pre[:len(pre) // 2]); s2.emit('rs:0:%d' % (pi % 2)); s2.extend(Script(interleave(pl).ops))
            nvt_cases.append(Case('vtable_once_nested', s2.ops, True, '1:1'))
    gv = Gen(random.Random(ctx.seed + 31), max_depth=4, allow_nested=False)
    for k in range(60 if ctx.thorough else 12):
        s = Script(); s.extend(gv.build(root='table')); s.emit('nvt'); s.emit('evs')
        nvt_cases.append(Case('vtable_once', s.ops, True, '1:1'))
    ir = lib.run_harness_resilient(H, [c.impl_line() for c in nvt_cases])
    mr = ctx.run_model('reset', [c.model_line(True) for c in nvt_cases])
    for c, a, m in zip(nvt_cases, ir, mr):
        a = strip_eplive(c, a)
        ctx.count(c.impl_line(), klass='vtable_once')
        if a.startswith('CRASH') or 'CRASH' in a:
            c.impl = a
            ctx.violation(crash_key(c), 'crash in vtable_once history: ' + a[:200], {'harness_line': c.impl_line()}); continue
        ta, tm = a.split(), m.split()
        if c.klass == 'vtable_once_nested':
            # per buffer (nest id at emit time): every vtable exactly once; vtable emits recognised by their shape (the histories of this
            # family contain tables, offset vectors and buffers only: no other emit starts with its own length followed by a table size)
            def vtables(tok):
                out = {}
                for e in ([] if tok == '-' else tok.split(',')):
                    off, nest, hx_ = e.split(':'); b = bytes.fromhex(hx_); L = len(b)
                    if L < 4: continue
                    vs, ts = b[0] | b[1] << 8, b[2] | b[3] << 8
                    if vs % 2 or vs < 4 or vs not in (L, L - 1) or ts < 4: continue
                    ent = [b[i] | b[i + 1] << 8 for i in range(4, vs, 2)]
                    if any(x != 0 and not (4 <= x < ts) for x in ent): continue
                    out.setdefault(nest, []).append(bytes(b[:vs]))
                return out
            vi = vtables(ta[-1])
            dup = [(n, v.hex()) for n, l_ in vi.items() for v in set(l_) if l_.count(v) > 1]
            if dup:
                ctx.violation('vtable-emitted-twice', 'the buffer with nest id %s contains the vtable %s %d times although no cache limit is set' % (
                                  dup[0][0], dup[0][1], vi[dup[0][0]].count(bytes.fromhex(dup[0][1]))),
                              {'harness_line': c.impl_line(), 'model_line': c.model_line(True), 'duplicates': dup[:5]})
                continue
            if ta[:-2] + ta[-1:] != tm[:-2] + tm[-1:]:
                ctx.violation('corr:emit-stream', 'emit stream (references, nest ids, bytes) of the implementation differs from the model in a nested vtable history',
                              {'harness_line': c.impl_line(), 'model_line': c.model_line(True)})
            nm = tm[-2].split('/')
            if len(nm) == 2 and nm[0] != nm[1]:
                ctx.violation('corr:model-vtable-twice', 'the model emitted a vtable twice for one buffer: %s' % tm[-2], {'model_line': c.model_line(True)})
            continue
        nv = ta[-2]
        if '/' in nv:
            n, d = nv.split('/')
            if n != d:
                ctx.violation('vtable-emitted-twice', 'a vtable was emitted %s times for %s distinct contents in one top-level buffer without cache limit' % (n, d),
                              {'harness_line': c.impl_line()})
                continue
        if ta[-1] != tm[-1]:
            ctx.violation('corr:emit-stream', 'emit stream of the implementation differs from the model: impl %s model %s' % (ta[-1][:120], tm[-1][:120]),
                          {'harness_line': c.impl_line(), 'model_line': c.model_line(True)})

    # ---------------------------------------------------------------- property: the emitter's pages (counted at FLATCC_EMITTER_ALLOC / FREE)
    PAGE = consts['PAGE_SIZE']
    for c in cases:
        if 'CRASH' in c.impl: continue
        toks = c.impl.split()
        for j, t in enumerate(toks):
            if not t.startswith('{'): continue
            d = parse_snap(t)
            if 'e_live' not in d or int(d['e_live']) < 0: continue
            live, err = divmod(int(d['e_live']), 1000)
            after_clr = j > 0 and j - 1 < len(c.ops) and c.ops[j - 1] == 'clr'
            if err or live * PAGE != int(d['e_cap']) or (after_clr and live != 0):
                ctx.violation('emitter-pages-leak', '%s: %d emitter pages are live (%d bytes) while the emitter accounts for a capacity of %s bytes%s' % (
                                  c.klass, live, live * PAGE, d['e_cap'], ' after flatcc_builder_clear' if after_clr else ''),
                              {'harness_line': c.impl_line()[:20000], 'snapshot_index': j, 'live_pages': live, 'e_cap': d['e_cap']})
                break
        if c.meta.get('eplive', 0) % 1000 >= 500:
            ctx.violation('refmap-table-leak', '%s: a table allocated through FLATCC_CALLOC is still live after flatcc_builder_clear / flatcc_refmap_clear at the end of the history' % c.klass,
                          {'harness_line': c.impl_line()[:20000]})
        elif c.meta.get('eplive', 0) != 0:
            ctx.violation('emitter-pages-leak', '%s: %d emitter pages still live after clearing builder and emitter at the end of the history' % (c.klass, c.meta['eplive'] // 1000),
                          {'harness_line': c.impl_line()[:20000]})
    # the pool trims as the model (emitter_pool_bounded: after reset at most one page or twice the decayed average) predicts: live pages
    # must come down from the peak and end at one page
    for c in pool_cases:
        if 'CRASH' in c.impl: continue
        snaps = [parse_snap(t) for t in c.impl.split() if t.startswith('{')]
        if len(snaps) < 4: continue
        lives = [int(x['e_live']) // 1000 for x in snaps[:-1]]
        caps_ = [int(x['e_cap']) for x in snaps[:-1]]
        ctx.sample({'pool_case': c.klass, 'live_pages_after_each_reset': lives[:6] + ['...'] + lives[-3:]}, limit=16)
        for k, x in enumerate(snaps[:-1]):
            bound = max(PAGE, 2 * int(x['e_avg']))
            if int(x['e_cap']) > bound + PAGE or lives[k] * PAGE > bound + PAGE:
                ctx.violation('emitter-pool-unbounded', '%s: after reset %d the pool holds %d live pages / capacity %s, above max(page, 2 * average %s) + one page' % (
                                  c.klass, k, lives[k], x['e_cap'], x['e_avg']), {'harness_line': c.impl_line()[:20000]})
                break
        if lives[-1] != 1 or lives[0] <= 1:
            ctx.violation('emitter-pool-not-trimmed', '%s: live pages after each reset %s: expected several after the large build and one at the end' % (c.klass, lives),
                          {'harness_line': c.impl_line()[:20000]})

    # ---------------------------------------------------------------- property: footprint flat after warm-up
    for c in fp_cases:
        if c.impl.startswith('CRASH') or 'CRASH' in c.impl: continue
        snaps = [parse_snap(t) for t in c.impl.split() if t.startswith('{')]
        if len(snaps) < 2: continue
        mid, last = snaps[-2], snaps[-1]
        grown = [f for f in CAP_FIELDS if int(last[f]) > int(mid[f])]
        if int(last['e_cap']) > int(mid['e_cap']): grown.append('e_cap')
        if int(last.get('rm_buckets', 0)) > int(mid.get('rm_buckets', 0)): grown.append('rm_buckets')
        ctx.sample({'footprint_case': c.klass, 'bytes_mid': footprint(mid), 'bytes_end': footprint(last), 'e_cap': last['e_cap']}, limit=14)
        for f in grown:
            key = {'c_us': 'user-frame-leak', 'c_ds': 'ds-first-leak'}.get(f, 'footprint-growth:' + f)
            n = c.meta.get('n', 0)
            ctx.violation(key, 'footprint after reset keeps growing in `%s`: buffer %s is %s bytes after %d and %s bytes after %d iterations' % (
                              c.klass, f, mid[f], n // 2, last[f], n),
                          {'harness_line': c.impl_line()[:20000], 'class': c.klass, 'buffer': f, 'mid': mid[f], 'end': last[f]})
        # absolute bound from the theorem: every per-build buffer stays below max(minimum, 2 * demand); the model's capacities
        # are the prediction (compared field by field above); here additionally: nothing beyond 64 KiB for these small builds
        tot = footprint(last)
        if tot > 1 << 20:
            ctx.violation('footprint-absolute:' + c.klass, 'builder buffers hold %d bytes after reset for a build of a few hundred bytes' % tot,
                          {'harness_line': c.impl_line()[:20000]})

    ctx.trusted = lib.DEFAULT_TRUSTED + ['translators/reset_probe.c (T1: frame / descriptor sizes, allocator minima read from default_alloc itself, page size)']
    ctx.assumptions = ['little-endian host', 'default allocator (flatcc_builder_default_alloc) for the capacity predictions',
                       'API contract of builder.c respected by the histories (frame types match, table ids below the reserved count, '
                       'no call other than reset / clear after a failed call)', 'sizes below 2^31']
    ctx.finish_args = dict(
        rule='histories = (prefix activity, reset variant, reference build): random well-formed builds (tables, structs, vectors, strings, offset '
             'vectors, union vectors, nested buffers, user frames) completed or abandoned at a random / at EVERY op index; JSON documents for '
             'gen/c14_schema.fbs truncated at every byte and malformed; max_level 1..40; vtable cache limits; clustering on/off; block alignment; '
             'refmap; an allocator that honours reduce_buffers; 4 reset variants; footprint series of %d iterations. '
             'distinct = distinct harness lines; non-trivial = every line builds or parses something' % iters,
        explanation='theorems of Properties_C14 re-checked against regenerated constants; extracted model and implementation compared on return values, '
                    'state snapshots, emit streams and finalized bytes; independently: finalized bytes after reset == bytes of a fresh builder, '
                    'footprint flat between half-way and end of each series, sanitizer silence, vtables emitted once')
