"""C01 - Verifier acceptance implies in-bounds, aligned, terminating reads.

1. T1 constants -> Generated/Consts.v; re-check Properties_C01.vo (soundness theorems about Verifier/*.v).
2. For a corpus of generated schemas (fixed seeds + VERIF_SEED): fresh flatcc generates reader/verifier/json printer;
   T2 recovers the verifier descriptor from *_verifier.h and it is compared with the descriptor the reader needs
   (from the schema AST): a difference means the generated verifier checks something other than what the reader reads.
3. H-verify: C verdict + error code of T_verify_as_root[_with_size] vs. the extracted verifier model on valid buffers
   (independent python encoder), targeted hostile mutations of every offset/length/vtable/type field, truncations and
   random bytes; H-walk: every accepted buffer is walked with all generated accessors and printed with the generated
   JSON printer under ASan+UBSan on an exact-size allocation; the extracted reader-walk model must say OK.
"""
import os, re, struct, random
from . import lib
from gen import c01gen, fbenc
from translators import verifier_h_to_desc as t2
from . import c01b_util


def mutation_values(orig, width, pos, blen):
    m = (1 << (8 * width)) - 1
    c = {0, 1, 2, 3, 4, 5, 7, 8, m, m - 1, m - 3, m - 7, m >> 1, (m >> 1) + 1, orig + 1, orig - 1, orig + 2, orig - 2,
         orig + 4, orig - 4, orig + 8, orig ^ 0x80, blen - pos, blen - pos - 1, blen - pos + 1, blen - pos - 4, blen - pos - 3,
         blen - pos + 4, blen, blen - 4, (blen - pos) | 0x80000000, 0x7000, 0x10000, m - pos, m - pos + 1, m - pos - 3, m - 4 + 1}
    if width == 4:
        # element counts whose product with a plausible element size wraps around 2^32 to something small
        for es in (2, 3, 4, 6, 8, 12, 16, 20, 24, 32, 40, 48, 56, 64, 72, 96):
            for tgt in (0, 8, 16):
                n = ((1 << 32) + tgt + es - 1) // es
                c.add(n); c.add(n + 1)
    return sorted(v & m for v in c if (v & m) != orig)


def build_schema_harness(ctx, S, name, fl):
    d = os.path.join(ctx.bdir, name); os.makedirs(d, exist_ok=True)
    fbs = os.path.join(d, name + '.fbs'); open(fbs, 'w').write(c01gen.render_fbs(S))
    rc, out = ctx.gen(fbs, d, opts=('-a', '--json'))
    if rc != 0:
        return None, 'flatcc rejected generated schema: ' + out[:500]
    try:
        desc_c = t2.parse(open(os.path.join(d, name + '_verifier.h')).read())
    except t2.TranslateError as e:
        # outside the descriptor language: the soundness theorem cannot be applied to this generated verifier; say so and let the
        # dynamic part (C verifier vs. the verifier the reader needs, ASan walk) look for the failing buffer
        ctx.broken_obligation('T2:' + str(e)[:120], {'schema_fbs': c01gen.render_fbs(S), 'translator_error': str(e)})
        desc_c = {'desc': c01gen.expected_descriptor(S), 'tables': [t['name'] for t in S['tables']], 'unions': [], 'structs': {}}
    tmpl = open(os.path.join(lib.ROOT, 'harness', 'verify_walk_main.c.in')).read()
    vd, wd = [], []
    for t in S['tables']:
        T = t['name']
        vd.append('            else if (!strcmp(root, "%s")) rc = th ? %s_verify_as_root_with_type_hash_and_size(b, len, 0) : ws ? %s_verify_as_root_with_size(b, len) : %s_verify_as_root(b, len);' % (T, T, T, T))
        wd.append('                else if (!strcmp(root, "%s")) { walk_%s(%s_as_root(rb)); plen = %s_print_json_as_root(&ctx, rb, rlen, 0); }' % (T, T, T, T))
    for s in S['struct_order']:
        vd.append('            else if (!strcmp(root, "%s")) rc = th ? %s_verify_as_root_with_type_hash_and_size(b, len, 0) : ws ? %s_verify_as_root_with_size(b, len) : %s_verify_as_root(b, len);' % (s, s, s, s))
        wd.append('                else if (!strcmp(root, "%s")) { walk_%s(%s_as_root(rb)); plen = %s_print_json_as_root(&ctx, rb, rlen, 0); }' % (s, s, s, s))
    src = tmpl.replace('@@SCHEMA@@', name).replace('@@WALKER@@', c01gen.render_walker(S, name)) \
              .replace('@@VERIFY_DISPATCH@@', '\n'.join(vd)).replace('@@WALK_DISPATCH@@', '\n'.join(wd))
    cpath = os.path.join(d, 'main.c'); open(cpath, 'w').write(src)
    exe = os.path.join(d, 'vw')
    ctx.cc([cpath] + fl['objs'], exe, san=True, defs=['-DNDEBUG'], incs=['-I' + d, '-I' + os.path.join(lib.ROOT, 'harness')])
    return (exe, desc_c), None


def deep_chain(steps):
    """bytes of a buffer over `table T { child:T; kids:[T]; }` that is a chain of tables; steps[i] in 'c' (via child) / 'v' (via a one-element vector)"""
    import struct
    b = bytearray(8)
    struct.pack_into('<I', b, 0, 8 + 8)                     # root table right after its vtable
    for i, st in enumerate(list(steps) + ['end']):
        vt = len(b)
        if st == 'c': ent = (4, 0)
        elif st == 'v': ent = (0, 4)
        else: ent = (0, 0)
        b += struct.pack('<HHHH', 8, 8, ent[0], ent[1])
        tp = len(b)
        b += struct.pack('<i', tp - vt)
        slot = len(b)
        if st == 'c': b += struct.pack('<I', 4 + 8)           # next vtable is 4 bytes ahead, next table 8 after it
        elif st == 'v':
            b += struct.pack('<I', 4)                          # vector right after the table
            b += struct.pack('<I', 1) + struct.pack('<I', 4 + 8)
        else: b += struct.pack('<I', 0)
    return bytes(b)


def deep_nesting(ctx, fl):
    """nesting limit: accepted buffers never nest deeper than the documented limit; verdicts equal the model's"""
    S = {'structs': {}, 'struct_order': [], 'unions': [], 'root': 'T',
         'tables': [{'name': 'T', 'fields': [{'name': 'child', 'kind': 'table', 'type': 'T', 'required': False},
                                             {'name': 'kids', 'kind': 'vec_table', 'type': 'T', 'required': False}]}]}
    res, err = build_schema_harness(ctx, S, 'deep', fl)
    if res is None: raise lib.CheckError('deep schema rejected: ' + err)
    exe, dc = res
    plans = []
    for d in (1, 50, 97, 98, 99, 100, 101, 150):
        plans.append('c' * d)
    for k in (90, 95, 96, 97, 98, 99):
        for tail in (0, 1, 2, 5, 200, 3000):
            plans.append('c' * k + 'v' + 'c' * tail)
            plans.append('c' * (k - 2) + 'vv' + 'c' * tail)
    plans.append('v' * 49); plans.append('v' * 50); plans.append('v' * 51)
    lines_i, lines_m, depth = [], ['schema deep %s' % dc['desc']], []
    for p in plans:
        hx = deep_chain(p).hex()
        lines_i.append('vw T p 0 ' + hx); lines_m.append('verify deep T/0 p 0 ' + hx); depth.append(len(p) + 1)
    out = lib.run_harness_resilient(lib.Harness(exe), lines_i, timeout=300)
    mres = ctx.run_model('verifier', lines_m)[1:]
    for p, li, o, m, d in zip(plans, lines_i, out, mres, depth):
        ctx.count(li, klass='deep_nesting')
        rep = {'schema_fbs': c01gen.render_fbs(S), 'chain': '%s (c = via table field, v = via table vector)' % (p if len(p) < 120 else p[:100] + '...(%d)' % len(p)), 'tables_on_chain': d, 'impl': o[:200], 'model_verify': m, 'harness_line': li[:200] + '...'}
        acc = o.startswith('V 0')
        if acc and d > 100:
            ctx.violation('nesting-limit-bypass', 'verifier accepted a buffer nested %d tables deep (documented limit 100)' % d, rep)
        elif 'CRASH' in o or o.startswith('V ?'):
            ctx.violation('deep-nesting-crash', 'crash on a deeply nested buffer: ' + o[:200], rep)
        elif (o.split()[1] if len(o.split()) > 1 else '?') != ('0' if m == 'OK' else m.split()[-1]):
            ctx.violation('corr:verify:deep', 'verifier model and implementation disagree on a deep chain: impl %s model %s' % (o[:20], m), rep, kind='model-impl-disagreement')


def known_limits(ctx, fl):
    """The two places where the soundness theorem needs a hypothesis that the C code does not enforce; each is replayed
    (nested alignment: on the implementation; > 2 GiB: by the kernel-checked witness) and reported under its own key."""
    S = {'structs': {}, 'struct_order': [], 'unions': [], 'root': 'T0',
         'tables': [{'name': 'T0', 'fields': [{'name': 'n', 'kind': 'nested_table', 'type': 'T1', 'required': False}]},
                    {'name': 'T1', 'fields': [{'name': 'v', 'kind': 'vec_scalar', 'type': 'double', 'required': False}]}]}
    res, err = build_schema_harness(ctx, S, 'nal', fl)
    if res is None: raise lib.CheckError('nested alignment schema rejected: ' + err)
    exe, dc = res
    w = bytes([12,0,0,0, 6,0,8,0, 4,0,0,0, 8,0,0,0, 8,0,0,0, 0,0,0,0, 32,0,0,0, 12,0,0,0, 6,0,8,0, 4,0,0,0, 8,0,0,0, 4,0,0,0, 1,0,0,0] + [0] * 8)
    line = 'vw T0 p 0 ' + w.hex()
    out = lib.run_harness_resilient(lib.Harness(exe), [line], timeout=60)[0]
    rc2, o2, e2 = lib.sh2([exe], input=line + '\n', env={'ASAN_OPTIONS': 'detect_leaks=0'}, timeout=60)
    m = ctx.run_model('verifier', ['schema nal %s' % dc['desc'], 'verify nal T/0 p 0 ' + w.hex(), 'walk nal T/0 p 0 ' + w.hex()])
    ctx.count(line, klass='nested_alignment_witness')
    if o2.startswith('V 0') and (m[2] != 'OK' or 'misaligned' in e2):
        ctx.violation('nested-alignment', 'verifier accepts a nested table buffer that starts at a 4- but not 8-aligned address; its [double] vector is then read '
                      'misaligned (nested buffers are only checked relative to their own start): model walk %s; %s' % (m[2], ' '.join(e2.split('\n')[:1])[:160]),
                      {'schema_fbs': c01gen.render_fbs(S), 'harness_line': line, 'impl': o2[:100], 'model_walk': m[2], 'coq_witness': 'C01_nested_alignment_refuted'})
    if any(t['theorem'] == 'C01_size_bound_refuted' for t in ctx.theorems):
        ctx.violation('size-bound-2gib', 'soundness needs blen <= 2^31+3: for larger buffers vbase = table - soffset wraps in 32 bits while the reader uses pointer arithmetic '
                      '(kernel-checked witness C01_size_bound_refuted: 2^31+4 byte buffer accepted, reader reads at offset 2^32)',
                      {'coq_witness': 'Properties_C01.C01_size_bound_refuted', 'bytes': 'all 0 except b[0]=8,b[2]=1; b[0x10000]=6,b[0x10002]=8,b[0x10004]=4; b[0x10008]=8; b[0x1000C..F]=F4 FF FE 7F; b[2^31+3]=0x80',
                       'schema': '[[FTable 1 @0];[FScalar 4 4 @0]] RTable 0 Plain addr 0'})


def nested_nesting(ctx, fl):
    """the nesting budget is shared across nested buffers: chains of nested_flatbuffer roots around the limit"""
    S = {'structs': {}, 'struct_order': [], 'unions': [], 'root': 'N',
         'tables': [{'name': 'N', 'fields': [{'name': 'n', 'kind': 'nested_table', 'type': 'N', 'required': False},
                                             {'name': 'x', 'kind': 'scalar', 'type': 'int', 'required': False}]}]}
    res, err = build_schema_harness(ctx, S, 'nchain', fl)
    if res is None: raise lib.CheckError('nested chain schema rejected: ' + err)
    exe, dc = res
    rng = ctx.rng
    lines_i, lines_m, depths = [], ['schema nchain %s' % dc['desc']], []
    for d in (1, 2, 40, 90, 97, 98, 99, 100, 101, 102, 150, 400):
        buf = fbenc.Enc(S).finish_table_root('N', {'x': b'\x01\0\0\0'}, rng)
        for k in range(d - 1):
            buf = fbenc.Enc(S).finish_table_root('N', {'n': buf}, rng)
        lines_i.append('vw N p 0 ' + buf.hex()); lines_m.append('verify nchain T/0 p 0 ' + buf.hex()); depths.append(d)
    out = lib.run_harness_resilient(lib.Harness(exe), lines_i, timeout=300)
    mres = ctx.run_model('verifier', lines_m)[1:]
    for li, o, m, d in zip(lines_i, out, mres, depths):
        ctx.count(li, klass='nested_chain')
        rep = {'schema_fbs': c01gen.render_fbs(S), 'nested_buffers_on_chain': d, 'impl': o[:200], 'model_verify': m, 'harness_line': li[:200] + '...'}
        if o.startswith('V 0') and d > 100:
            ctx.violation('nesting-limit-bypass:nested', 'verifier accepted %d nested buffers inside one another (documented nesting limit 100 includes nested buffers)' % d, rep)
        elif 'CRASH' in o or o.startswith('V ?'):
            ctx.violation('nested-chain-crash', 'crash on a chain of nested buffers: ' + o[:200], rep)
        elif (o.split()[1] if len(o.split()) > 1 else '?') != ('0' if m == 'OK' else m.split()[-1]):
            ctx.violation('corr:verify:nested-chain', 'verifier model and implementation disagree on a chain of %d nested buffers: impl %s model %s' % (d, o[:20], m), rep, kind='model-impl-disagreement')


def roots_of(S):
    r = []
    for i, t in enumerate(S['tables']): r.append((t['name'], 'T/%d' % i))
    for s in S['struct_order']: r.append((s, 'S/%d/%d' % (S['structs'][s]['size'], S['structs'][s]['align'])))
    return r


def run(ctx):
    rng = ctx.rng
    consts = lib.gen_consts(ctx)
    if os.path.exists(os.path.join(lib.COQ, 'Properties', 'Properties_C01.v')):
        if not ctx.check_theorems():
            ctx.broken_obligation('Properties_C01.vo', getattr(ctx, 'broken', {}))
        if os.path.exists(os.path.join(lib.COQ, 'Properties', 'Properties_C01b.v')) and not ctx.check_theorems(prop_module='Properties_C01b'):
            ctx.broken_obligation('Properties_C01b.vo', getattr(ctx, 'broken', {}))
        if os.path.exists(os.path.join(lib.COQ, 'Properties', 'Properties_C01c.v')):
            # T5: verifier.c leaves regenerated from the clang AST and re-proved equal to the hand model
            from . import c01c_util
            ok, msg = c01c_util.regen_leaves(ctx)
            ctx.log('T5 leaves: %s' % (msg if not ok else 'regenerated, Properties_C01c re-checked'))
            if not ok:
                w = c01c_util.LAST.get('witnesses') or []
                if w: ctx.violation('leaf:' + w[0]['leaf'], msg, w[0])
                else: ctx.broken_obligation('Properties_C01c.vo', dict(c01c_util.LAST, message=msg))
    fl = {'objs': ctx.rt_objs(san=True, defs=['-DNDEBUG'])}

    nfixed, nrand = (10, 10) if ctx.thorough else (4, 2)
    per_buf = 2500 if ctx.thorough else 500
    nvals = 6 if ctx.thorough else 3
    schemas = []
    feature_sets = [None,
                    ['scalar', 'struct', 'string', 'vec_scalar', 'vec_struct', 'vec_string', 'table', 'vec_table'],
                    ['scalar', 'union', 'vec_union', 'table', 'string'],
                    ['scalar', 'nested_table', 'nested_struct', 'vec_struct', 'struct', 'table'],
                    None, ['vec_union', 'union', 'vec_table'], None, ['nested_struct', 'nested_table', 'scalar'], None, None]
    for i in range(nfixed):
        r = random.Random(1000 + i)
        schemas.append(('fx%d' % i, c01gen.gen_schema(r, nstructs=r.randint(1, 3), ntables=r.randint(2, 4), nunions=r.randint(1, 2), features=feature_sets[i % len(feature_sets)])))
    for i in range(nrand):
        schemas.append(('rn%d' % i, c01gen.gen_schema(rng, nstructs=rng.randint(0, 3), ntables=rng.randint(1, 4), nunions=rng.randint(0, 2))))

    deep_nesting(ctx, fl)
    nested_nesting(ctx, fl)
    known_limits(ctx, fl)
    desc_mismatch = []
    for name, S in schemas:
        res, err = build_schema_harness(ctx, S, name, fl)
        if res is None:
            ctx.violation('schema-rejected', err, {'schema_fbs': c01gen.render_fbs(S)}); continue
        exe, dc = res
        desc_e = c01gen.expected_descriptor(S)
        if [t['name'] for t in S['tables']] != dc['tables']:
            raise lib.CheckError('T2: table order differs from the schema: %s' % dc['tables'])
        if dc['desc'] != desc_e:
            diffs = [(a, b) for a, b in zip(','.join(dc['desc'].split(' ')).split(','), ','.join(desc_e.split(' ')).split(',')) if a != b]
            desc_mismatch.append((name, diffs, c01gen.render_fbs(S)))
        H = lib.Harness(exe)
        maxal = max([4] + [st['align'] for st in S['structs'].values()] + [8])
        mlines = ['schema %s_c %s' % (name, dc['desc']), 'schema %s_e %s' % (name, desc_e)]
        cases = []        # (impl line, verify model line, walk model line, klass)
        for rootname, rootdesc in roots_of(S):
            for vi in range(nvals):
                for ws in (False, True):
                    enc = fbenc.Enc(S)
                    if rootdesc.startswith('T'):
                        val = fbenc.gen_value(S, rootname, rng, maxdepth=rng.choice([1, 2, 3]))
                        if vi == 0: val['__vt_extra'] = 2
                        buf = enc.finish_table_root(rootname, val, rng, with_size=ws)
                    else:
                        buf = enc.finish_struct_root(rootname, bytes(rng.getrandbits(8) for _ in range(S['structs'][rootname]['size'])), with_size=ws)
                    v = 's' if ws else 'p'
                    muts = [('valid', buf, 0)]
                    # other base addresses: multiples of the schema's largest alignment keep the property's premise (walk),
                    # the others are compared on the verdict only
                    for am in (maxal, 3 * maxal): muts.append(('valid_addr', buf, am % 256))
                    for am in (4, 8, 2, 1):
                        if am % maxal: muts.append(('valid_misplaced', buf, am))
                    cand = []
                    for pos, w, kind in enc.marks:
                        orig = int.from_bytes(buf[pos:pos + w], 'little')
                        for nv in mutation_values(orig, w, pos, len(buf)):
                            cand.append((kind, pos, w, nv))
                    rng.shuffle(cand)
                    for kind, pos, w, nv in cand[:per_buf]:
                        nb = bytearray(buf); nb[pos:pos + w] = nv.to_bytes(w, 'little')
                        muts.append(('mut_' + kind, bytes(nb), 0))
                    for L in sorted(set([0, 3, 4, 7, 8, 11, 12] + [rng.randint(0, len(buf)) for _ in range(20)] + [len(buf) - k for k in range(1, 9)])):
                        if 0 <= L < len(buf): muts.append(('trunc', buf[:L], 0))
                    for _ in range(30):
                        nb = bytearray(buf)
                        for _ in range(rng.choice([1, 1, 2, 4])): nb[rng.randrange(len(nb))] = rng.getrandbits(8)
                        muts.append(('randbyte', bytes(nb), 0))
                    for klass, bb, am in muts:
                        hx = bb.hex() if bb else '-'
                        cases.append(('%s %s %s %d %s' % ('v' if klass == 'valid_misplaced' else 'vw', rootname, v, am, hx),
                                      'verify %s_c %s %s %d %s' % (name, rootdesc, v, am, hx),
                                      'walk %s_e %s %s %d %s' % (name, rootdesc, v, am, hx), klass))
                        if ws and klass in ('valid', 'mut_sizefield', 'trunc', 'mut_uoffset') :
                            # the type-hash + size entry points (typed header check) on the same bytes; hash 0 accepts any identifier
                            cases.append(('%s %s h %d %s' % ('vw', rootname, am, hx),
                                          'verify %s_c %s s %d %s' % (name, rootdesc, am, hx),
                                          'walk %s_e %s s %d %s' % (name, rootdesc, am, hx), klass + '_typed'))
        # run
        ilines = [c[0] for c in cases]
        ctx.log('%s: %d cases' % (name, len(cases)))
        rc, ires, err = H.run(ilines)
        # resume after crashes (an unterminated "V 0" is the crash marker)
        replies = list(ires)
        guard = 0
        while len(replies) < len(ilines) and guard < 300:
            k = len(replies) - 1 if replies and not replies[-1].endswith('unmodified') and replies[-1].startswith('V 0') else len(replies)
            if k == len(replies): replies.append('V ? CRASH')    # crashed before printing anything
            rc1, o1, e1 = lib.sh2([exe], input=ilines[k] + '\n', env={'ASAN_OPTIONS': 'detect_leaks=0'}, timeout=60)
            replies[k] = 'V 0 CRASH ' + ' | '.join([l for l in e1.split('\n') if 'ERROR' in l or 'runtime error' in l or '#0' in l or '#1' in l or '#2' in l][:6])[:700] if replies[k].startswith('V 0') else 'V ? CRASH ' + e1[:300]
            rc, more, err = H.run(ilines[k + 1:])
            replies.extend(more)
            guard += 1
        ctx.log('%s: impl done (%d crash restarts)' % (name, guard))
        mres = ctx.run_model('verifier', mlines + [c[1] for c in cases])
        acc_idx = [i for i, (c, ir) in enumerate(zip(cases, replies)) if ir.startswith('V 0') and c[0].startswith('vw')]
        wres = ctx.run_model('verifier', mlines + [cases[i][2] for i in acc_idx])[2:]
        wmap = dict(zip(acc_idx, wres))
        if mres[0] != 'OK' or mres[1] != 'OK':
            ctx.violation('schema-not-wf:%s' % name, 'descriptor outside schema_wf (theorem hypotheses): %s / %s' % (mres[0], mres[1]), {'desc_c': dc['desc'], 'desc_e': desc_e})
        mv = mres[2:2 + len(cases)]; mw = [wmap.get(i, 'n/a') for i in range(len(cases))]
        ctx.log('%s: model done' % name)
        accepted = 0
        for (il, vl, wl, klass), ir, v, w in zip(cases, replies, mv, mw):
            m = re.match(r'V (-?\d+|\?)', ir)
            crc = m.group(1) if m else '?'
            model_v = '0' if v == 'OK' else (v.split()[1] if v.startswith('ERR') else v)
            nontriv = klass != 'trunc' or crc == '0'
            ctx.count(il, nontrivial=True, klass=klass)
            rep = {'schema_fbs': c01gen.render_fbs(S), 'harness_line': il, 'impl': ir, 'model_verify': v, 'model_walk': w,
                   'descriptor_generated': dc['desc'], 'descriptor_reader': desc_e}
            if crc == '0':
                accepted += 1
                if 'CRASH' in ir:
                    kind = 'unsafe-read' if 'AddressSanitizer' in ir else ('misaligned-read' if 'misaligned' in ir else 'crash')
                    ctx.violation('%s:%s' % (kind, klass), 'verifier accepted a buffer on which the generated reader/printer %s: %s' % (kind, ir[10:300]), rep)
                elif 'MODIFIED' in ir:
                    ctx.violation('buffer-modified', 'reader/printer wrote to the buffer', rep)
                elif w not in ('OK', 'n/a'):
                    ctx.violation('walk-model:%s' % klass, 'verifier accepted a buffer on which the reader model makes an out-of-range or misaligned read (%s)' % w, rep)
            if crc != model_v:
                if 'CRASH' in ir and crc == '?':
                    ctx.violation('verifier-crash:%s' % klass, 'the verifier itself crashed: ' + ir[:300], rep)
                else:
                    ctx.violation('corr:verify:%s' % klass, 'verifier model and implementation disagree: impl %s model %s' % (crc, v), rep, kind='model-impl-disagreement')
        # JSON printer half: extracted print_walk on every accepted buffer; the printer's own error on an accepted buffer is a violation
        pidx = [i for i, (c, ir) in enumerate(zip(cases, replies)) if ir.startswith('V 0') and c[0].startswith('vw')]
        pcs = [(desc_e,) + tuple(cases[i][2].split()[2:6]) for i in pidx]
        for j, pc, reply in c01b_util.printer_walk_check(ctx, [(d, r, v, int(am), hx) for d, r, v, am, hx in pcs]):
            il, vl, wl, klass = cases[pidx[j]]
            ctx.violation('printer-walk-model:%s' % klass, 'verifier accepted a buffer on which the JSON printer model makes an out-of-range or misaligned read or raises an error (%s)' % reply,
                          {'schema_fbs': c01gen.render_fbs(S), 'harness_line': il, 'impl': replies[pidx[j]], 'model_print_walk': reply})
        for i in c01b_util.printer_error_replies(replies):
            il, vl, wl, klass = cases[i]
            ctx.violation('printer-error:%s' % klass, 'the generated JSON printer reports error %s on a buffer the verifier accepted' % c01b_util.printer_error_code(replies[i]),
                          {'schema_fbs': c01gen.render_fbs(S), 'harness_line': il, 'impl': replies[i]})
        ctx.cov.setdefault('accepted_buffers_walked', 0)
        ctx.cov['accepted_buffers_walked'] += accepted
        if cases: ctx.sample({'schema': name, 'case': cases[0][0][:200], 'impl': replies[0], 'model_verify': mv[0], 'model_walk': mw[0]})
    # descriptor mismatches: reported with a failing input when the dynamic part found one, else as a broken obligation
    for name, diffs, fbs in desc_mismatch:
        found = [v for v in ctx.violations if v['replay'].get('schema_fbs') == fbs and not v['key'].startswith('corr:')]
        if not found:
            ctx.broken_obligation('T2-descriptor:%s' % ';'.join('%s!=%s' % d for d in diffs[:3]),
                                  {'schema_fbs': fbs, 'generated_vs_reader': diffs[:10]})
    ctx.cov['schemas'] = len(schemas)
    ctx.trusted = lib.DEFAULT_TRUSTED + ['translators/cleaf_to_coq.py (T5: clang 14 -ast-dump=json of verifier.c -> coq/Generated/Leaf_verifier.v; output must be proved equal to the hand model)', 'translators/consts_probe.c (T1)', 'translators/verifier_h_to_desc.py (T2)',
                                         'gen/c01gen.py + gen/fbenc.py (schema, walker and buffer generators)']
    ctx.assumptions = ['little-endian host', 'uoffset 32 bit, voffset 16 bit, utype 8 bit (T1 asserts)', 'NDEBUG build of reader/printer (assertions off)',
                       'buffers up to 2^31 bytes in the theorems; alignment observed through UBSan on the implementation']
    ctx.finish_args = dict(
        rule='valid buffers from an independent encoder for every table/struct root of each generated schema (plain and size-prefixed), '
             'targeted mutations of every offset / length / vtable entry / vtable+table size / union type byte to boundary values, truncations, random bytes, '
             'misplaced base addresses; distinct = distinct (root, variant, address, bytes); non-trivial = reaches the verifier',
        explanation='soundness theorems re-checked; generated verifier descriptor (T2) compared with the reader descriptor; C verifier verdict and error code '
                    'compared with the extracted model on every case; every accepted buffer walked by all generated accessors and the JSON printer under ASan+UBSan '
                    'and by the extracted reader-walk model')
