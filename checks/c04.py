"""C04 - JSON parser is memory-safe on any text and only yields verifiable buffers.

1. T1: translators/json_probe.c -> coq/Generated/JsonConsts.v (error codes, flags, configuration switches the
   transcription was made for); re-check Properties_C04.vo (theorems about Json/Scanner.v).
2. Correspondence (scanner layer): every scanner primitive of json_parser.c / flatcc_json_parser.h is run on the same
   (input, position, flags, unquoted) as the extracted model (modelrun_json); complete replies are compared
   (returned position, error code, error_loc - start, line, line_start, unquoted, value).  The model of the code as
   it stands (`*_cur`) predicts exactly which inputs make the present code read *end.
3. Property itself, independent of the model, on whole generated parsers (gen/c04_schema.fbs through the fresh flatcc):
   ASan (recover mode, exact-length heap input), alarm, verifier verdict on success, error_loc range on failure,
   builder reuse after failure (reference build byte-identical to a fresh builder).
"""
import os, re
from . import lib
from . import c04_util as U

PRIMS0 = ['space', 'space_ext', 'string_start', 'string_part', 'string_end', 'string_escape', 'symbol_start', 'symbol_end',
          'symbol_part', 'skip_constant', 'object_start', 'object_end', 'array_start', 'array_end', 'null', 'none',
          'integer', 'uint8', 'bool', 'number', 'generic', 'unmatched', 'build_string']
PRIMS1 = ['match_scope', 'match_symbol', 'match_type_suffix', 'match_constant']
CUR = {'number': 'number_cur', 'generic': 'generic_cur', 'unmatched': 'unmatched_cur'}


def prim_texts(ctx, docs):
    """byte strings aimed at the scanner primitives: (class, bytes)"""
    rng = ctx.rng
    out = []
    nums = [b'0', b'-0', b'1', b'12', b'-12', b'1.', b'-1.', b'0.', b'1.5', b'-1.5e3', b'1e', b'1e+', b'1e-', b'1e+5', b'1E-2', b'0.0', b'00', b'01', b'-',
            b'-.', b'.5', b'1.e5', b'1.5e', b'123456789012345678', b'18446744073709551615', b'18446744073709551616', b'18446744073709551614', b'18446744073709551625', b'1844674407370955161', b'1844674407370955162',
            b'9999999999999999999', b'30000000000000000000', b'99999999999999999999', b'184467440737095516150', b'-18446744073709551615', b'-18446744073709551616', b'000000000000000000000001', b'255', b'256', b'-1',
            b'12345678901234567890123', b'1.5x', b'1x', b'-a', b'1.2.3', b'1ee5', b'+1', b'true', b'false', b'tru', b'fals', b'null', b'nul', b'nullx', b'truefalse']
    terms = [b'', b',', b' ', b'}', b']', b':', b'\n', b'\r', b'\t', b'\x0b', b'x', b'"', b'.', b'e', b' ,']
    for n in nums:
        for t in terms:
            out.append(('number', n + t))
    strs = [b'"abc"', b'""', b'"a\\nb"', b'"\\u0041"', b'"\\u00e9"', b'"\\u20AC"', b'"\\ud83d\\ude00"', b'"\\uD83D\\uDE00x"', b'"\\ud83d"', b'"\\ud83d\\u0041"',
            b'"\\ud83dx"', b'"\\ud83d\\ud83d"', b'"\\udbff\\udfff"', b'"\\ud800\\udc00"', b'"\\udc00\\ud800"', b'"\\x41"', b'"\\xfF"', b'"\\xZ1"', b'"\\x4"', b'"\\x"',
            b'"\\u12"', b'"\\u123"', b'"\\u123g"', b'"\\u"', b'"\\"', b'"\\\\"', b'"\\/\\b\\f\\r\\t"', b'"\\q"', b'"abc', b'"abc\\', b'"abc\\u', b'"abc\\u00', b'"abc\\ud83d\\u',
            b'"abc\\ud83d\\ude0', b'"ab\x01c"', b'"ab\x00c"', b'"ab\x1fc"', b'"\xff\xfe\x80"', b'"\x7f"', b'"a"b"', b'"abcdefghij"', b'"abcdef"', b'"abcdefg"', b'"\\u0000"',
            b'"a\\u0000b"', b'"12345\\n"', b'"123456\\n"', b'"\\ud83d\\ude0012345"', b'"12\\ud83d\\ude00"', b'"123\\ud83d\\ude00"', b'abc', b'']
    for s in strs:
        for t in [b'', b',', b' ', b'}', b':1', b' : 1,']:
            out.append(('string', s + t))
    for k in list(range(0, 20)) + [31, 32, 33, 40]:
        for tail in [b'', b'x', b'\x80', b'\x00', b'"', b',', b'\r\nx', b'\r', b'\n \n', b'\t \t x', b'\x0bx', b'\x01', b' \r \n \t ' + b' ' * 17 + b'y']:
            out.append(('space', b' ' * k + tail))
        out.append(('space', bytes(rng.choice([32, 32, 32, 9, 10, 13, 32, 33, 0x80, 11]) for _ in range(k + 16))))
    syms = [b'abc:1', b'abc :1', b'"abc":1', b'"abc" : 1', b'a.b.c:', b'abc.:', b'.abc:', b'"a\\"b":1', b'"abc\\', b'"abc', b'abc_type":1', b'"abc_type":1', b'abc_type:1',
            b'abc_typ', b'abc_type', b'abc.def', b'abc.', b'abc"', b'abc" ,', b'abc  def"', b'abc  "', b'abc def,', b'abc,', b'abc}', b'abc]', b'abc\\', b'abc x', b'abc _x', b'abc \x80',
            b'\xc3\xa9t\xc3\xa9:1', b'a_b9.c:1', b'9ab:', b'_:', b'{"a":1}', b'{}', b'{ }', b'[]', b'[ ]', b'{"a":1,}', b'[1,]', b'{"a":1 , }', b'[1 , ]', b',', b', ', b',}', b',]', b', x', b']x', b'}x', b'{x', b'[x',
            b'null', b'nul', b'nulll', b'xnull', b':', b' :', b': x']
    for s in syms:
        out.append(('symbol', s))
    gen = [b'{"a":', b'{"a": ', b'{"a":\x01', b'{"a"', b'{"a', b'{', b'[', b'[1', b'[1,', b'[1,2]', b'{"a":[1,2,{"b":"x\\n"}], c:true} ,', b'{"a":{"b":{"c":[[],{}]}}}', b'[[[[]]]]',
           b'{"a":1.', b'[1.', b'[-', b'[1e', b'{a:b}', b'{a:b c}', b'{"a":tru}', b'[nul]', b'{"a":"x', b'{"a":"x\\', b'["\\ud83d', b'{"a" 1}', b'{"a":1 "b":2}', b'[1 2]', b'{"a":1]', b'[1}',
           b'{,}', b'[,]', b'{"a":,}', b'"x"', b'1', b'x', b'@', b'\x80', b'', b' ', b'{"a":1}}', b'[]]', b'{"a":1},', b'tru', b'true', b'-', b'.', b'{.a:1}', b'{a.:1}', b'{"a"  :  [ 1 , 2 ] , }']
    for s in gen:
        out.append(('generic', s))
    # deep nesting around the 512 limit of the explicit stack
    for d in (510, 511, 512, 513, 514):
        out.append(('deep', b'[' * d))
        out.append(('deep', b'[' * d + b'1' + b']' * d))
        out.append(('deep', b'{"a":' * d + b'1' + b'}' * d))
        out.append(('deep', (b'[{"k":' * ((d + 1) // 2))[:None] + b'0'))
        out.append(('deep', b'[' * d + b']' * (d - 1)))
    for klass, d in docs:
        out.append((klass, d))
    return out


def run(ctx):
    rng = ctx.rng
    lib.gen_consts(ctx)
    consts = U.gen_json_consts(ctx)
    bad_cfg = {k: consts.get(k) for k, v in U.EXPECTED_CFG.items() if consts.get(k) != v}
    ok = U.check_theorems_and_model(ctx)
    if not ok:
        ctx.broken_obligation('Properties_C04.vo', getattr(ctx, 'broken', {}))
    if bad_cfg:
        ctx.broken_obligation('scanner-configuration', 'json_parser configuration differs from the one Json/Scanner.v transcribes: %r' % bad_cfg)

    gdir = U.gen_schema(ctx)
    H = U.build_harness(ctx, 'json_scan_diff.c', 'json_scan_diff', gdir)
    T = ctx.thorough
    # second executable with the struct-root schema gen/c04_sroot.fbs (entry points C4S_SPt_parse_json_as_root and c04_sroot_parse_json)
    H2 = None
    try:
        H2 = U.build_harness(ctx, 'json_scan_diff.c', 'json_scan_diff_sroot', gdir, defs=('-DNDEBUG', '-DC04_SROOT', '-I' + os.path.join(ctx.bdir, 'gen_sroot')))
    except lib.BuildFailure as e:
        msg = [l for l in e.out.split('\n') if 'error' in l][:3]
        ctx.violation('struct-root-parse-json-uncompilable', 'the JSON parser header generated for a schema whose root_type is a STRUCT does not compile: the schema-level entry point '
                      '<basename>_parse_json is declared with `flatcc_json_parser_flags_t flags` and defined with `int flags` (%s); no byte string can be handed to that parser' % ' | '.join(msg)[:400],
                      {'schema': open(os.path.join(lib.ROOT, 'gen', 'c04_sroot.fbs')).read(), 'compiler_output': e.out[-1500:],
                       'how': 'flatcc -a --json gen/c04_sroot.fbs; cc -c a file including c04_sroot_json_parser.h'})

    if ctx.replay_in:
        # bin/check C04 --replay <file>: run the recorded request line again on the current tree (implementation and model)
        import json
        rp = json.load(open(ctx.replay_in))
        line = rp.get('harness_line', '')
        if line.endswith('...') or not line:
            raise lib.CheckError('replay file has no complete harness_line (inputs above 4000 bytes are regenerated from the seed: rerun bin/check C04 with VERIF_SEED=%s)' % rp.get('seed'))
        rep = U.run_resilient(H, [line])[0]
        ctx.log('replay request:', line[:300]); ctx.log('implementation reply:', rep[:600])
        if not line.startswith('parse '):
            ctx.log('model reply:', ctx.run_model('json', [line])[0])
        ctx.count(line, klass='replay')
        r0, ub = U.split_ub(rep)
        f = r0.split()
        bad = rep.startswith(('ASAN', 'CRASH', 'HANG')) or (f[:1] == ['OK'] and len(f) > 3 and f[3] != '0') or (f[:1] == ['ERR'] and f[-2:] != ['REUSE', '0']) \
            or (not line.startswith('parse ') and rep != ctx.run_model('json', [line])[0])
        if bad:
            ctx.violation(rp.get('key', 'replay'), 'replayed: ' + rep[:300], {'harness_line': line, 'reply': rep[:600]})
        ctx.finish_args = dict(rule='replay of one recorded request', explanation='replay')
        return

    # ------------------------------------------------------------------ documents from value trees
    g = U.Gen(rng, max_depth=3)
    docs = []          # (root, value, text)
    # nested buffers given as byte arrays need real buffers: build a pool through the harness first
    pool_req, pool_vals = [], []
    for k in range(6):
        for root in ('Sub', 'Fix'):
            v = g.root(root); st = U.Style(rng, strict=True)
            pool_vals.append((root, v)); pool_req.append('parse %s 0 0 1 %s' % (root, U.hx(U.render_root(root, v, st))))
    pool_rep = U.run_resilient(H, pool_req)
    pool = {'Sub': [], 'Fix': []}
    for (root, v), rep, req in zip(pool_vals, pool_rep, pool_req):
        ctx.count(req, klass='parse:pool')
        f = rep.split()
        if f and f[0] == 'OK' and len(f) >= 6 and f[3] == '0':
            pool[root].append((v, bytes.fromhex(f[5])))
        elif rep.startswith(('ASAN', 'CRASH', 'HANG')):
            ctx.violation(U.asan_key(rep) if rep.startswith('ASAN') else 'crash:parse', 'generated parser %s on a valid strict document: %s' % (root, rep[:200]),
                          {'harness': 'json_scan_diff', 'harness_line': req, 'reply': rep[:600]})
    if not pool['Sub'] or not pool['Fix']:
        ctx.notes.append('nested buffer pool incomplete (%d Sub, %d Fix): nested fields are rendered as objects only' % (len(pool['Sub']), len(pool['Fix'])))

    def make_doc(root, as_bytes=False, strict=False, depth=3):
        gg = U.Gen(rng, max_depth=depth)
        v = gg.root(root)
        st = U.Style(rng, strict=strict)
        if root == 'Root':
            for f, r2 in (('nest', 'Sub'), ('nest_s', 'Fix'), ('nest64', 'Sub')):
                # nest64 (base64) and nest_s need buffer bytes (a struct root given as JSON object is a separate class below)
                if f in v and (as_bytes or f != 'nest'):
                    if not pool[r2]:
                        if f != 'nest': del v[f]
                        continue
                    pv, pb = rng.choice(pool[r2]); v[f] = pv; st.nested_bytes[id(pv)] = pb
        return v, U.render_root(root, v, st)

    ndocs = 600 if T else 70
    for k in range(ndocs):
        root = rng.choice(['Root'] * 6 + ['Leaf', 'Other', 'Sub', 'Rec', 'Node', 'Node', 'Req', 'Nums', 'Pt', 'Fix', 'Fix'])
        v, text = make_doc(root, as_bytes=(k % 3 == 0), strict=(k % 4 == 0), depth=rng.choice([1, 2, 3]))
        docs.append((root, v, text))
    # documents with unknown fields (skipper territory) : wrap / inject
    unknown_vals = [b'1', b'1.5', b'-1e5', b'"s"', b'"\\u00e9\\n"', b'true', b'null', b'[1,2,[3,{"q":[]}]]', b'{"a":{"b":[1.5,{"c":"d"}]},"e":1}', b'xyz', b'{a:b,c:[d,e]}', b'[]', b'{}', b'0.5e-3']
    udocs = []
    for root, v, text in docs[:ndocs // 2]:
        if text.startswith(b'{') and len(text) > 2:
            inj = b'"zz%d":' % rng.randint(0, 9) + rng.choice(unknown_vals) + b','
            udocs.append((root, v, b'{' + inj + text[1:]))
            toks = U.tokens(text)
            commas = [i for i, t in enumerate(toks) if t == b',']
            if commas:
                i = rng.choice(commas)
                udocs.append((root, v, b''.join(toks[:i + 1]) + b'qq:' + rng.choice(unknown_vals) + b',' + b''.join(toks[i + 1:])))
    # ------------------------------------------------------------------ scanner primitives: model vs implementation
    texts = prim_texts(ctx, [('doc', t) for _, _, t in docs[:40]] + [('udoc', t) for _, _, t in udocs[:20]])
    # random byte strings over a JSON-ish alphabet
    alpha = b'{}[]:,"\\ \n\r\t0123456789.-+eEabcdfnrtux_/\x00\x01\x1f\x7f\x80\xff'
    for _ in range(1500 if T else 300):
        texts.append(('random', bytes(rng.choice(alpha) for _ in range(rng.choice([1, 2, 3, 5, 8, 13, 21, 40])))))
    for _ in range(600 if T else 150):
        _, _, t = rng.choice(docs); texts.append(('mutated', U.mutate(rng, t)[:400]))
    plines = []        # (klass, prim, line, text, pos)

    def add_prim(klass, prim, flags, unq, pos, text, arg=None):
        line = '%s %d %d %d %s' % (prim, flags, unq, pos, U.hx(text)) + ('' if arg is None else ' %d' % arg)
        plines.append((klass, prim, line, text, pos, arg))

    for klass, text in texts:
        n = len(text)
        poss = sorted(set([0, n] + [rng.randint(0, n) for _ in range(2)] + ([1] if n else [])))
        if klass in ('doc', 'udoc', 'deep'): poss = [0, rng.randint(0, n)]
        for pos in poss:
            flags = rng.choice([0, 0, 1, 8, 16, 31])
            unq = rng.choice([0, 1])
            prims = PRIMS0 if klass not in ('deep',) else ['generic', 'unmatched', 'skip_constant', 'symbol_end']
            if klass in ('doc', 'udoc', 'mutated') and pos != 0: prims = rng.sample(PRIMS0, 6)
            for p in prims:
                add_prim(klass, p, 1 if p == 'unmatched' and rng.random() < 0.8 else flags, unq, pos, text)
            if klass not in ('deep',):
                for p in PRIMS1:
                    add_prim(klass, p, flags, unq, pos, text, rng.choice([0, 1, 2, 3, 4, 5, 8, n - pos, max(0, n - pos - 1)]))
                for an in (0, 1, 3, 6, 7, 12):
                    if klass in ('string', 'random', 'mutated') or rng.random() < 0.1:
                        add_prim(klass, 'char_array', flags, unq, pos, text, an)
    # every truncation of some texts for the loops that run to the end of the input
    trunc_src = [t for k, t in texts if k in ('generic', 'string', 'number')] + [t for _, _, t in docs[:8 if T else 3]] + [t for _, _, t in udocs[:8 if T else 3]]
    seen_tr = set()
    for t in trunc_src:
        t = t[:600]
        for cut in range(len(t) + 1):
            pre = t[:cut]
            if pre in seen_tr: continue
            seen_tr.add(pre)
            add_prim('truncation', 'generic', 0, 0, 0, pre)
            if cut and pre[:1] == b'"':
                add_prim('truncation', 'build_string', 0, 0, 0, pre)
                add_prim('truncation', 'char_array', rng.choice([0, 8, 16]), 0, 0, pre, 6)
            if cut and pre[:1] in b'-0123456789':
                add_prim('truncation', 'number', 0, 0, 0, pre)
                add_prim('truncation', 'integer', 0, 0, 0, pre)

    mreq, cur_idx = [], {}
    for i, (klass, prim, line, text, pos, arg) in enumerate(plines):
        mreq.append(line)
    for i, (klass, prim, line, text, pos, arg) in enumerate(plines):
        if prim in CUR:
            cur_idx[i] = len(mreq); mreq.append(CUR[prim] + line[len(prim):])
    ctx.log('scanner primitives: %d requests (+%d for the model of the present code)' % (len(plines), len(mreq) - len(plines)))
    mres = ctx.run_model('json', mreq)
    ires = U.run_resilient(H, [l for _, _, l, _, _, _ in plines])
    ctx.log('scanner primitives: model and implementation replies collected')
    n_pred_oob = n_asan = 0
    for i, (klass, prim, line, text, pos, arg) in enumerate(plines):
        a, b = mres[i], ires[i]
        ctx.count(line, klass='prim:' + klass)
        n = len(text)
        replay = {'harness': 'json_scan_diff', 'harness_line': line, 'input_hex': U.hx(text), 'model': a, 'impl': b}
        pred_oob = i in cur_idx and mres[cur_idx[i]] == 'OOB'
        n_pred_oob += pred_oob
        if b.startswith('ASAN') or b.startswith('CRASH') or b.startswith('HANG'):
            n_asan += 1
            key = U.asan_key(b) if b.startswith('ASAN') else ('hang:' + prim if b.startswith('HANG') else 'crash:' + prim)
            ctx.violation(key, 'scanner primitive %s: %s on %d-byte input (position %d)%s' % (
                prim, b[:200], n, pos, '; predicted by the model of the present code (Properties_C04 *_refuted)' if pred_oob else ''), replay)
            continue
        # the theorems exclude these for the model
        if a in ('OOB', 'FUEL') or a.startswith('EXC') or a.startswith('BAD'):
            ctx.violation('model:' + prim, 'extracted model returned %s (excluded by Properties_C04)' % a, replay, kind='no-failing-input-found'); continue
        # property statement on the implementation's reply, independent of the model
        f = b.split()
        if prim in ('symbol_part',):
            # fewer than 8 bytes left and one of them >= 0x80: the packed word depends on sign extension of plain char
            # (fixes/C10-symbol-part-ext-sign-extension.patch); the value is not constrained by C04
            if n - pos < 8 and any(c >= 0x80 for c in text[pos:]): continue
        elif prim in ('match_scope', 'null'):
            if not (pos <= int(f[0]) <= n):
                ctx.violation('prop:pos:' + prim, '%s returned position %s outside [%d,%d]' % (prim, f[0], pos, n), replay); continue
        else:
            ret, err, loc = int(f[0]), int(f[1]), int(f[2])
            if not (0 <= ret <= n):
                ctx.violation('prop:pos:' + prim, '%s returned position %d outside the %d-byte input' % (prim, ret, n), replay); continue
            if err != 0 and not (0 <= loc <= n):
                ctx.violation('prop:error_loc:' + prim, '%s set error %d with error_loc %d outside the %d-byte input' % (prim, err, loc, n), replay); continue
        # correspondence
        if prim == 'char_array':
            af = a.split()
            if len(af) == 7:
                hexv = '' if af[6] == '-' else af[6]
                hexv = hexv + 'ee' * (arg - len(hexv) // 2)
                af[6] = hexv if hexv else '-'
                a = ' '.join(af)
        if prim == 'build_string':
            af, bf = a.split(), b.split()
            if len(af) == 7 and len(bf) == 7 and (af[1] != '0' or bf[1] != '0'):
                a, b = ' '.join(af[:6]), ' '.join(bf[:6])
        if a != b:
            ctx.violation('corr:' + prim, 'model and implementation disagree on scanner primitive %s: model `%s`, impl `%s`' % (prim, a, b), replay)
    ctx.sample({'primitive': plines[0][2][:160], 'model': mres[0], 'impl': ires[0]})
    ctx.notes.append('scanner primitives: %d compared, %d inputs where the model of the present code predicts a read of *end, %d sanitizer replies' % (len(plines), n_pred_oob, n_asan))

    # ------------------------------------------------------------------ whole parsers: the property statement itself
    cases = []      # (klass, root, flags, fid, text)

    def add(klass, root, flags, text, fid=None):
        cases.append((klass, root, flags, rng.choice([0, 1]) if fid is None else fid, text))

    allflags = list(range(32))
    for root, v, text in docs:
        for fl in ([0, 2, 31] + rng.sample(allflags, 3)):
            add('valid', root, fl, text)
    for root, v, text in udocs:
        for fl in (0, 1, 1 | rng.choice(allflags)):
            add('unknown-fields', root, fl, text)
    # all 32 flag subsets on a few documents
    for root, v, text in docs[:6 if T else 3] + udocs[:4 if T else 2]:
        for fl in allflags: add('all-flags', root, fl, text)
    # EVERY truncation
    tr = docs[:90 if T else 7] + udocs[:60 if T else 7]
    for root, v, text in tr:
        text = text[:1500]
        for cut in range(len(text)):
            add('truncation', root, rng.choice([0, 1, 1, 4, 5, 31]), text[:cut])
    # token level mutations
    for _ in range(40000 if T else 2500):
        root, v, text = rng.choice(docs + udocs)
        add('mutation', root, rng.choice(allflags), U.mutate(rng, text))
    # values ending exactly at `end`, in known and unknown fields
    tails = [b'1', b'12', b'-', b'-1', b'1.', b'1.5', b'1e', b'1e5', b'1e+', b'0', b'00', b'tru', b'true', b'nul', b'null', b'"', b'"a', b'"a\\', b'"a\\u', b'"a\\u00', b'"a\\u00e',
             b'"a\\ud83d', b'"a\\ud83d\\', b'"a\\ud83d\\ude0', b'"a"', b'[', b'[1', b'[1,', b'{', b'{"n"', b'{"n":', b'{"n":1', b'Red', b'"Red', b'"Red ', b'"QUJ', b'"QUJD', b' ', b'', b'{"x":1,"y":']
    heads = [('Root', b'{"i32":'), ('Root', b'{"f64":'), ('Root', b'{"f32":'), ('Root', b'{"u64":'), ('Root', b'{"b":'), ('Root', b'{"name":'), ('Root', b'{"col":'), ('Root', b'{"bits":'),
             ('Root', b'{"vi":['), ('Root', b'{"vs":['), ('Root', b'{"pt":'), ('Root', b'{"fix":{"name":'), ('Root', b'{"fix":{"a":['), ('Root', b'{"leaf":'), ('Root', b'{"b64":'),
             ('Root', b'{"b64u":'), ('Root', b'{"nest":'), ('Root', b'{"nest_s":'), ('Root', b'{"raw":['), ('Root', b'{"any_type":"Leaf","any":'), ('Root', b'{"any":'), ('Root', b'{"any":{"n":1},"any_type":'),
             ('Root', b'{"anys_type":["Leaf"],"anys":['), ('Root', b'{"anys":[{"n":1}],"anys_type":['), ('Root', b'{"zz":'), ('Root', b'{"zz":{"a":'), ('Root', b'{"zz":[1,{"a":'), ('Root', b'{zz:'),
             ('Root', b'{"any_type":"Str","any":'), ('Root', b'{"any_type":"Pt","any":'), ('Root', b'{"vt":[{"s":'), ('Root', b'{"nest64":'), ('Root', b'{"vfix":[{"d":'),
             ('Pt', b'{"x":'), ('Fix', b'{"d":'), ('Fix', b'{"name":'), ('Fix', b'{"e":['), ('Fix', b'{"p":[{"x":'), ('Leaf', b'{"c":'), ('Sub', b'{"tag":'), ('Rec', b'{"r":{"r":{"n":'), ('Other', b'{"v":[')]
    for root, h in heads:
        for t in tails:
            for fl in (0, 1, rng.choice(allflags)):
                add('ends-at-end', root, fl, h + t)
    # nesting of unknown fields around the 512-deep stack of the skipper, and of known recursive tables around the verifier's limit
    for d in (510, 511, 512, 513, 514):
        for body in (b'[' * d + b'1' + b']' * d, b'{"a":' * d + b'1' + b'}' * d, b'[' * d, b'[{"a":' * (d // 2) + b'1'):
            for fl in (1, 1 | 4):
                add('deep-unknown', 'Root', fl, b'{"zz":' + body + b'}')
                add('deep-unknown', 'Pt', fl, b'{"zz":' + body + b',"x":1}')
    for d in (1, 50, 97, 98, 99, 100, 101, 102, 200, 1000):
        add('deep-known', 'Rec', 0, b'{"r":' * d + b'{"n":1}' + b'}' * d, 1)
        add('deep-known', 'Rec', 4, b'{"k":[' * d + b'{"n":1}' + b']}' * d, 1)
        add('deep-known', 'Rec', 0, b'{"r":' * d, 1)
    # struct and table roots with hand-made corner cases
    hand = [('Pt', b'{"x":1,"y":2}'), ('Pt', b'{}'), ('Pt', b''), ('Pt', b'{"x":1,"x":2}'), ('Pt', b'{"x":32768}'), ('Pt', b'{"x":-32769}'), ('Pt', b'[1,2]'), ('Pt', b'{"x":"Red"}'),
            ('Fix', b'{"a":[1,2,3,4]}'), ('Fix', b'{"a":[1]}'), ('Fix', b'{"name":"1234567"}'), ('Fix', b'{"name":"12345\\ud83d\\ude00"}'), ('Fix', b'{"name":"\\u00e9\\u00e9\\u00e9\\u00e9"}'),
            ('Fix', b'{"p":[{"x":1},{"y":2},{"x":3}]}'), ('Fix', b'{"e":["Red","Blue","Green"]}'), ('Fix', b'{"e":[Red]}'), ('Fix', b'{"name":""}'),
            ('Root', b'{"any_type":"Leaf"}'), ('Root', b'{"any":{"n":1}}'), ('Root', b'{"any_type":"NONE","any":{"n":1}}'), ('Root', b'{"any_type":0}'), ('Root', b'{"any_type":9,"any":{}}'),
            ('Root', b'{"any_type":"Leaf","any":{"n":1},"any_type":"Leaf"}'), ('Root', b'{"any":{"n":1},"any":{"n":2},"any_type":"Leaf"}'), ('Root', b'{"anys_type":["Leaf","Pt"],"anys":[{"n":1}]}'),
            ('Root', b'{"anys":[{"n":1},{"x":1}],"anys_type":["Leaf"]}'), ('Root', b'{"anys_type":["NONE"],"anys":[null]}'), ('Root', b'{"anys_type":[9],"anys":[{}]}'),
            ('Root', b'{"any":{"zz":{"a":'), ('Root', b'{"any":{"n":1.'), ('Root', b'{"any":[1.'), ('Root', b'{"anys":[{"n":1.'), ('Root', b'{"any":{"n":1},"any_type":"Other"}'),
            ('Root', b'{"nest":[1,2,3]}'), ('Root', b'{"nest":[]}'), ('Root', b'{"nest":{"id":1}}'), ('Root', b'{"nest":{"id":1,"tag":"t"}}'), ('Root', b'{"nest_s":{"u":1}}'), ('Root', b'{"nest_s":[0,0,0,0]}'),
            ('Root', b'{"nest64":"AAAA"}'), ('Root', b'{"b64":"QQ"}'), ('Root', b'{"b64":"QQ="}'), ('Root', b'{"b64":"QQ=="}'), ('Root', b'{"b64":"QR=="}'), ('Root', b'{"b64":"Q"}'), ('Root', b'{"b64":"Q-_/"}'),
            ('Root', b'{"b64u":"Q-_/"}'), ('Root', b'{"b64u":"-_-_"}'), ('Root', b'{"b64":"+/+/"}'), ('Root', b'{"b64":"QUJD\\n"}'), ('Root', b'{"b64":"QUJ D"}'), ('Root', b'{"b64":""}'),
            ('Sub', b'{"id":1}'), ('Sub', b'{"tag":"x"}'), ('Sub', b'{"tag":"x","tag":"y"}'), ('Leaf', b'{"s":"a","s":"b"}'), ('Leaf', b'{"c":"Purple"}'), ('Leaf', b'{"c":3}'), ('Leaf', b'{"c":"Red Green"}'),
            ('Root', b'{"bits":"A B C H"}'), ('Root', b'{"bits":A}'), ('Root', b'{"bits":A B}'), ('Root', b'{"bits":"A A"}'), ('Root', b'{"col":"C4.Color.Red"}'), ('Root', b'{"col":Color.Red}'),
            ('Root', b'{"u8":"Color.Red"}'), ('Root', b'{"i64":-9223372036854775808}'), ('Root', b'{"i64":-9223372036854775809}'), ('Root', b'{"u64":18446744073709551615}'), ('Root', b'{"u64":18446744073709551616}'),
            ('Root', b'{"f32":1e39}'), ('Root', b'{"f64":1e309}'), ('Root', b'{"f64":-1e309}'), ('Root', b'{"f64":nan}'), ('Root', b'{"f64":inf}'), ('Root', b'{"f64":"inf"}'), ('Root', b'{"f64":1.5.5}'),
            ('Root', b'{"f64":.5}'), ('Root', b'{"f64":00.5}'), ('Root', b'{"f64":-.5}'), ('Root', b'{"f64":1e5'), ('Root', b'{"f64":0x10}'), ('Root', b'{"i32":1.0}'), ('Root', b'{"i32":1e2}'), ('Root', b'{"b":2}'),
            ('Root', b'{"b":"true"}'), ('Root', b'{"b":-1}'), ('Root', b' \r\n\t{ "name" \r\n:\t"x" } \r\n'), ('Root', b'\xef\xbb\xbf{}'), ('Root', b'{}x'), ('Root', b'{}{}'), ('Root', b'null'), ('Root', b'[]'),
            ('Root', b'{"name":null}'), ('Root', b'{"leaf":null}'), ('Root', b'{"vi":null}'), ('Root', b'{"name":"a","name":"b"}'), ('Root', b'{"vt":[{"n":1},null]}'), ('Root', b'{"vs":["a",1]}'),
            ('Root', b'{"vp":[{"x":1},[1,2]]}'), ('Root', b'{"vfix":[{"name":"abc","a":[1]},{}]}'), ('Root', b'{"leaf":{"leaf":{}}}'), ('Rec', b'{"k":[{"k":[{"r":{"n":1}}]},{"n":2}]}')]
    for root, text in hand:
        for fl in ([0, 1, 31] + rng.sample(allflags, 2)):
            add('hand', root, fl, text)
    # nested_flatbuffer with a struct root given as a JSON object (with and without an earlier offset field)
    for pre in (b'', b'"leaf":{},', b'"name":"x",', b'"vi":[1],"leaf":{"n":1},'):
        for body in (b'{"u":1}', b'{}', b'{"a":[1,2,3],"name":"abc","d":1.5}'):
            for fl in (0, 2, 4):
                add('nested-struct-object', 'Root', fl, b'{' + pre + b'"nest_s":' + body + b'}')
    # random bytes
    for _ in range(12000 if T else 600):
        add('random', rng.choice(U.ROOTS), rng.choice(allflags), bytes(rng.choice(alpha) for _ in range(rng.choice([1, 2, 3, 5, 8, 13, 21, 40, 80]))))

    # float / double literals that END ON THE LAST BYTE of the input, hard-to-round ones included (they take the strtod fallback of grisu3):
    # the parser must refuse them (a number that reaches `end` is not terminated: invalid_numeric located at the literal), and nothing
    # behind the input may influence the result (run twice with different bytes behind the input: request `parset`)
    hard = [b'9007199254740993', b'-9007199254740993', b'123456789012345678901234567890', b'1.7976931348623157e308', b'3.4028235e38', b'3.4028236e38', b'2.2250738585072011e-308',
            b'8.98846567431158e307', b'1e23', b'4.35', b'0.30000000000000004', b'1.00000000000000011102230246251565404236316680908203125', b'5e-324', b'4.9e-324', b'1e309', b'1e-400',
            b'0.1', b'1', b'1.5', b'1e5', b'16777217', b'1.17549435e-38', b'0.000001', b'9.999999999999999e22', b'179769313486231580793728971405303415079934132710037826936173778980444968292764750946649017977587207096330286416692887910946555547851940402630657488671505820681908902000708383676273854845817711531764475730270069855571366959622842914819860834936475292719074168444365510704342711559699508093042880177904174497791.9999999999999999999999999999999999999999999999999999999999999999999999']
    fheads = [('Root', b'{"f64":'), ('Root', b'{"f32":'), ('Root', b'{ "i32":1, "f64" : '), ('Fix', b'{"d":'), ('Root', b'{"fix":{"d":'), ('Root', b'{"vfix":[{"d":'), ('Other', b'{"f":'),
              ('Root', b'{"other":{"f":'), ('Root', b'{"any_type":"Other","any":{"f":')]
    tcases = []
    for root, h in fheads:
        for t in hard:
            for fl in (0, rng.choice(allflags)):
                add('float-at-end', root, fl, h + t)
                tcases.append(len(cases) - 1)
            add('float-terminated', root, 0, h + t + rng.choice([b'}', b' }', b',', b' ']))
            tcases.append(len(cases) - 1)
    # integer limits of every width in positions the parser-layer model covers too (Leaf.n long, Leaf.c byte enum, Req.b [int], Rec.n int) and elsewhere
    for root, tpl, lo, hi in (('Leaf', b'{"n":%d}', -2 ** 63, 2 ** 63 - 1), ('Leaf', b'{"c":%d}', -128, 127), ('Req', b'{"a":"x","b":[%d],"c":{}}', -2 ** 31, 2 ** 31 - 1),
                              ('Rec', b'{"n":%d}', -2 ** 31, 2 ** 31 - 1), ('Root', b'{"i8":%d}', -128, 127), ('Root', b'{"i16":%d}', -32768, 32767), ('Root', b'{"i32":%d}', -2 ** 31, 2 ** 31 - 1),
                              ('Root', b'{"i64":%d}', -2 ** 63, 2 ** 63 - 1), ('Root', b'{"u8":%d}', 0, 255), ('Root', b'{"u16":%d}', 0, 65535), ('Root', b'{"u32":%d}', 0, 2 ** 32 - 1),
                              ('Root', b'{"u64":%d}', 0, 2 ** 64 - 1), ('Pt', b'{"x":%d}', -32768, 32767), ('Fix', b'{"a":[%d]}', -2 ** 31, 2 ** 31 - 1), ('Root', b'{"vi":[%d,1]}', -2 ** 31, 2 ** 31 - 1),
                              ('Nums', b'{"vb8":[%d]}', -128, 127), ('Nums', b'{"vs16":[%d]}', -32768, 32767), ('Nums', b'{"lim":{"l":%d}}', -2 ** 63, 2 ** 63 - 1), ('Nums', b'{"lim":{"ab":[%d]}}', -128, 127)):
        for val in (lo, lo + 1, hi, hi - 1, 0, -1 if lo < 0 else 1, lo - 1, hi + 1):
            for fl in (0, 2):
                add('int-limits-in' if lo <= val <= hi else 'int-limits-out', root, fl, tpl % val)
    # fixed length arrays longer than declared: README "Parsing Fixed Length Arrays": fails if longer than expected; with skip_array_overflow
    # "will allow overlong arrays and simply drop extra elements" - for arrays of scalars, structs and chars alike
    for body in (b'{"a":[1,2,3,4]}', b'{"a":[1,2,3,4,5,6]}', b'{"e":["Red","Blue","Green"]}', b'{"name":"1234567"}', b'{"name":"123456\\n"}', b'{"p":[{"x":1},{"y":2},{"x":3}]}',
                 b'{"p":[{"x":1},{"y":2},{"x":3,"y":4},{}],"u":7}'):
        for fl in (0, 8, 8 | 16, 31, 1):
            add('array-overflow', 'Fix', fl, body)
    # tables with deprecated union / union vector fields before, between and after the live ones: every live union and union vector driven,
    # type-first / value-first / split, alone and together (the union slots of the parser's user frame count live unions only)
    dep_hand = {
        'DepFirst': [b'{"v_type":["Leaf","Pt"],"v":[{"n":1},{"x":1,"y":2}]}', b'{"v":[{"n":1},"s"],"v_type":["Leaf","Str"]}', b'{"u_type":"Leaf","u":{"n":1}}',
                     b'{"u":{"n":1},"u_type":"Leaf","v":[{"v":[1]}],"v_type":["Other"],"n":5}', b'{"old_type":"Leaf","old":{"n":1},"v_type":["Pt"],"v":[{"x":3}]}', b'{"old":{"n":1}}'],
        'DepMid': [b'{"w_type":"Str","w":"x"}', b'{"w":{"n":1},"w_type":"Leaf"}', b'{"v_type":["Leaf"],"v":[{}],"w_type":"Pt","w":{"x":1},"u_type":"Other","u":{"f":2}}',
                   b'{"u":{"n":1},"v":[{"n":2}],"w":{"n":3},"w_type":"Leaf","v_type":["Leaf"],"u_type":"Leaf","s":"t"}', b'{"oldv_type":["Leaf"],"oldv":[{}],"w_type":"Leaf","w":{}}'],
        'DepLast': [b'{"w_type":"Leaf","w":{"n":1}}', b'{"v_type":["Str","Str"],"v":["a","b"],"w":"c","w_type":"Str"}', b'{"old_type":["Leaf"],"old":[{}],"u_type":"Pt","u":{"y":1}}'],
        'DepOnly': [b'{"n":1,"s":"x"}', b'{"old_type":"Leaf","old":{"n":1},"n":2}', b'{"old":{"n":1}}', b'{}'],
    }
    for root_, texts_ in dep_hand.items():
        for text in texts_:
            for fl in (0, 1, 2, 4):
                add('deprecated-union', root_, fl, text)
    for k in range(120 if T else 36):
        root_ = ['DepFirst', 'DepMid', 'DepLast', 'DepOnly'][k % 4]
        gg = U.Gen(rng, max_depth=2)
        v = gg.table(root_, 0, p_present=rng.choice([0.5, 1.0]))
        st = U.Style(rng, strict=(k % 2 == 0)); st.union_order = ['type_first', 'value_first', 'split'][(k // 4) % 3]
        text = U.render_root(root_, v, st)
        add('deprecated-union', root_, rng.choice([0, 0, 1, 2, 4, 31]), text)
        if k % 3 == 0:
            for cut in sorted(set(rng.randint(1, len(text)) for _ in range(8))): add('deprecated-union-truncation', root_, rng.choice([0, 1]), text[:cut])
            for _ in range(4): add('deprecated-union-mutation', root_, rng.choice(allflags), U.mutate(rng, text))
    # sibling nested buffers at the same depth, given as JSON objects with IDENTICAL table layout (two nested_flatbuffer fields of the same
    # table type, a vector of items each holding one): vtables must not be shared across the sibling buffers
    subs = [b'{"id":1,"tag":"t"}', b'{"tag":"x"}', b'{"id":7,"tag":"same","pt":{"x":1,"y":2}}', b'{"tag":""}']
    for sb in subs:
        for other in (sb, subs[0]):
            items = b','.join(b'{"payload":' + x + b',"id":%d}' % i for i, x in enumerate([sb, other, sb]))
            for body in (b'{"a":' + sb + b',"b":' + other + b'}', b'{"b":' + sb + b',"a":' + other + b',"n":3}', b'{"items":[' + items + b']}',
                         b'{"a":' + sb + b',"items":[' + items + b'],"b":' + other + b',"n":1}'):
                for fl in (0, 2, 4):
                    add('sibling-nested', 'Twin', fl, body, 1)
    for k in range(40 if T else 12):
        gg = U.Gen(rng, max_depth=3)
        v = gg.table('Twin', 0, p_present=1.0)
        add('sibling-nested', 'Twin', rng.choice([0, 1, 2, 4]), U.render_root('Twin', v, U.Style(rng, strict=(k % 2 == 0))))
    # a table type with several unions occurring repeatedly in one buffer, the non-first unions present in every instance
    for k in range(30 if T else 9):
        gg = U.Gen(rng, max_depth=3)
        mk = lambda t: gg.table(t, 1, p_present=1.0)
        v = {'xs': [mk('DepMid') for _ in range(rng.choice([2, 3]))], 'a': mk('DepMid'), 'b': mk('DepMid'), 'ys': [mk('DepLast') for _ in range(2)]}
        st = U.Style(rng, strict=(k % 2 == 0)); st.union_order = ['type_first', 'value_first', 'split'][k % 3]
        add('repeated-multi-union', 'Multi', rng.choice([0, 1, 2, 4]), U.render_root('Multi', v, st))
    # EVERY generated entry point: <T>_parse_json_as_root (above) and the schema-level <basename>_parse_json (root name `Root@schema`; for the
    # struct-root schema `SPt` / `SPt@schema` in the second executable).  Nesting of known fields through each of them.
    for d in (1, 50, 99, 100, 101, 127, 128, 1000, 20000):
        inner = b'{"r":' * d + b'{"n":1}' + b'}' * d
        for fl in (0, 4):
            add('deep-entry', 'Rec', fl, inner, 1)
            add('deep-entry', 'Root', fl, b'{"rec":' + inner + b'}', 1)
            add('deep-entry', 'Root@schema', fl, b'{"rec":' + inner + b'}', 1)
        add('deep-entry', 'Root@schema', 1, b'{"rec":' + b'{"k":[' * d + b'{}' + b']}' * d + b'}', 1)
    for (klass_, root_, fl_, fid_, text_) in list(cases):
        if root_ == 'Root' and (klass_ in ('valid', 'hand', 'all-flags', 'unknown-fields', 'nested-struct-object') or (klass_ in ('truncation', 'mutation', 'ends-at-end') and rng.random() < 0.15)):
            add('schema-entry:' + klass_, 'Root@schema', fl_, text_, 1)
    # fixed length arrays of STRUCTS given with FEWER elements than declared (0, 1, n-1, n; reject_array_underflow not set): the missing elements
    # are zero padded - exactly them: members of the parent struct that FOLLOW the array keep the values given (before or after the array in the
    # text), and nothing outside the struct / the builder's data stack is written (ASan; the moving-allocator builder has near exact-size blocks)
    expect = {}        # case index -> expected decoded content

    def rnd_i32(): return rng.choice([1, -1, 2147483647, -2147483648, 0x01020304, rng.randint(-2 ** 31, 2 ** 31 - 1)])

    def mk_struct(name, k):
        n = {'Tri': 3, 'Poly': 40}[name]
        val = {'tail': rnd_i32() or 7, 'id': rng.choice([1, -1, 32767, -32768, 12345]), 'pts': [(rnd_i32(), rnd_i32()) for _ in range(k)] + [(0, 0)] * (n - k)}
        parts = [b'"tail":%d' % val['tail'], b'"id":%d' % val['id']]
        if name == 'Tri':
            val['a'] = rnd_i32(); parts.append(b'"a":%d' % val['a'])
        arr = b'"pts":[' + b','.join(b'{"x":%d,"y":%d}' % p for p in val['pts'][:k]) + b']'
        order = rng.choice(['before', 'after', 'mixed'])
        if order == 'before': parts = parts + [arr]
        elif order == 'after': parts = [arr] + parts
        else: parts.insert(rng.randint(0, len(parts)), arr)
        return val, b'{' + b','.join(parts) + b'}'

    for name in ('Tri', 'Poly'):
        n = {'Tri': 3, 'Poly': 40}[name]
        for k in (0, 1, n - 1, n, 2 if n > 3 else 1):
            for rep_ in range(3):
                for fl in (0, 4, 8, 2):
                    val, text = mk_struct(name, k)
                    add('array-underfill', name, fl, text, 1); expect[len(cases) - 1] = val
                    # as table field and as vector element
                    gval = {'n': 77}
                    gparts = [b'"n":77']
                    if name == 'Poly': gval['poly'] = val; gparts.append(b'"poly":' + text)
                    else:
                        v2, t2 = mk_struct('Tri', rng.choice([0, 1, 2, 3])); v3, t3 = mk_struct('Tri', rng.choice([0, 1, 2]))
                        gval['tri'] = val; gval['vtri'] = [v2, v3]
                        gparts += [b'"tri":' + text, b'"vtri":[' + t2 + b',' + t3 + b']']
                    rng.shuffle(gparts)
                    add('array-underfill', 'Geo', fl, b'{' + b','.join(gparts) + b'}', 1); expect[len(cases) - 1] = gval
    # tables with several required fields: every subset of them omitted (the parse must then fail with `required`)
    req_fields = {'a': [b'"x"', b'""'], 'b': [b'[1,2]', b'[]'], 'c': [b'{"n":1}', b'{}'], 'd': [b'7']}
    for mask in range(16):
        for rep_ in range(2):
            names = [f for i, f in enumerate('abcd') if mask & (1 << i)]
            rng.shuffle(names)
            body = b','.join(b'"' + f.encode() + b'":' + req_fields[f][rep_ % len(req_fields[f])] for f in names)
            for fl in (0, 1, 2, 4, 31):
                add('required-subsets', 'Req', fl, b'{' + body + b'}')
    add('required-subsets', 'Sub', 0, b'{"id":1}'); add('required-subsets', 'Sub', 0, b'{"tag":"t"}')
    # union vectors whose elements hold unions / union vectors themselves (user frames nested inside a union vector parse),
    # type vector first, value vector first, and split
    tree_hand = [
        b'{"name":"root","kids_type":["Node","Leaf","Leaf"],"kids":[{"name":"k0","single_type":"Node","single":{"name":"k0s","single_type":"Leaf","single":{"s":"deep"}}},{"s":"k1"},{"s":"k2"}]}',
        b'{"name":"root","kids":[{"name":"k0","single":{"name":"k0s","single":{"s":"deep"},"single_type":"Leaf"},"single_type":"Node"},{"s":"k1"},{"s":"k2"}],"kids_type":["Node","Leaf","Leaf"]}',
        b'{"kids_type":["Node","Node","Other"],"kids":[{"kids_type":["Leaf","Node"],"kids":[{"n":1},{"single_type":"Leaf","single":{"n":2}}]},{"kids":[{"v":[1]},{"n":3}],"kids_type":["Other","Leaf"]},{"v":[7,8]}]}',
        b'{"kids":[{"kids":[{"n":1},{"single":{"n":2},"single_type":"Leaf"}],"kids_type":["Leaf","Node"]},{"kids_type":["Other","Leaf"],"kids":[{"v":[1]},{"n":3}]},{"v":[7,8]}],"kids_type":["Node","Node","Other"]}',
    ]
    for text in tree_hand:
        for fl in (0, 1, 2, 4):
            add('union-tree', 'Node', fl, text, 1)
    for k in range(160 if T else 40):
        gg = U.Gen(rng, max_depth=rng.choice([3, 4]))
        v = gg.table('Node', 0, p_present=rng.choice([0.7, 1.0]))
        st = U.Style(rng, strict=(k % 2 == 0)); st.union_order = ['type_first', 'value_first', 'split'][k % 3]
        text = U.render_root('Node', v, st)
        docs.append(('Node', v, text))
        add('union-tree', 'Node', rng.choice([0, 0, 1, 2, 4, 31]), text)
        if k % 4 == 0:
            for cut in sorted(set(rng.randint(1, len(text)) for _ in range(12))): add('union-tree-truncation', 'Node', rng.choice([0, 1]), text[:cut])
            for _ in range(6): add('union-tree-mutation', 'Node', rng.choice(allflags), U.mutate(rng, text))
    # the same parses on a fresh builder whose allocator moves every block it grows (flatcc_builder_custom_init): a pointer into a
    # builder stack kept across a growing operation is then a heap-use-after-free for ASan, and the result must not depend on the allocator
    moving = [i for i, c in enumerate(cases) if c[0] in ('valid', 'unknown-fields', 'hand', 'nested-struct-object', 'union-tree', 'required-subsets', 'union-tree-truncation',
                                                           'union-tree-mutation', 'all-flags', 'int-limits-in', 'int-limits-out', 'array-overflow', 'float-terminated', 'array-underfill', 'sibling-nested', 'repeated-multi-union', 'deprecated-union', 'deprecated-union-truncation', 'deprecated-union-mutation')]
    rest = [i for i, c in enumerate(cases) if c[0] in ('truncation', 'mutation', 'ends-at-end', 'random')]
    moving += rng.sample(rest, min(len(rest), 6000 if T else 1500))
    moving.sort()
    # last: 1 MB of nested known fields (a stack overflow kills the harness process)
    add('deep-known-hostile', 'Root@schema', 0, b'{"rec":' + b'{"r":' * 200000, 1)
    add('deep-known-hostile', 'Rec', 0, b'{"r":' * 200000, 1)
    lines = ['parse %s %d %d %d %s' % (root, fl, fid, 1 if klass == 'array-underfill' else 0, U.hx(text)) for klass, root, fl, fid, text in cases]
    rep = U.run_resilient(H, lines)
    tsel = sorted(set(tcases + [i for i, c in enumerate(cases) if c[0] == 'ends-at-end'] + rng.sample(range(len(cases) - 2), min(len(cases) - 2, 3000 if T else 600))))
    tsel = [i for i in tsel if len(cases[i][4]) <= 4000]
    tlines = ['parset' + lines[i][5:] for i in tsel]
    trep = U.run_resilient(H, tlines)
    for i, tl, tr in zip(tsel, tlines, trep):
        klass, root, fl, fid, text = cases[i]
        ctx.count(tl, klass='parse-tail:' + klass)
        replay = {'harness': 'json_scan_diff', 'harness_line': tl, 'root': root, 'flags': fl, 'input_hex': U.hx(text), 'reply': tr[:600]}
        t0, _ub = U.split_ub(tr)
        if ' ASAN ' in t0:
            ctx.violation(U.asan_key('ASAN ' + t0.split(' ASAN ', 1)[1]), 'generated parser %s (flags %d), input followed by poisoned bytes: %s' % (root, fl, t0[-220:]), replay); continue
        if not t0.startswith('T2 '):
            if rep[i].startswith(('CRASH', 'HANG', 'ASAN')): continue
            ctx.violation('crash:parse-tail', 'generated parser %s crashed or hung with readable bytes behind the input: %s' % (root, t0[:300]), replay); continue
        a, b = [x.strip() for x in t0[3:].split('|', 1)]
        if a != b:
            ctx.violation('read-behind-input', 'the result depends on the bytes BEHIND the input: `%s` with 48 digits `0` behind it, `%s` with `}` behind it (parser %s, flags %d, %d-byte input %r)' % (
                a, b, root, fl, len(text), text[-40:]), replay)
    mlines = ['parsem' + lines[i][5:] for i in moving]
    ctx.log('whole parsers: %d requests (+%d on a fresh builder with a moving allocator)' % (len(lines), len(mlines)))
    mrep = U.run_resilient(H, mlines)
    for i, ml, mr in zip(moving, mlines, mrep):
        klass, root, fl, fid, text = cases[i]
        ctx.count(ml, klass='parse-moving:' + klass)
        n = len(text)
        replay = {'harness': 'json_scan_diff', 'harness_line': ml if n < 4000 else ml[:200] + '...', 'root': root, 'flags': fl, 'fid_mode': fid, 'input_len': n,
                  'input_hex': U.hx(text) if n < 4000 else '(see class %s)' % klass, 'reply': mr[:600], 'reply_on_shared_default_builder': rep[i][:300]}
        m0, _ub = U.split_ub(mr)
        r0, _ub = U.split_ub(rep[i])
        if m0.startswith('ASAN'):
            key = U.asan_key(m0)
            if 'heap-use-after-free' in m0:
                mm = re.search(r'@(\S+)', m0)
                key = 'stale-builder-pointer:' + (mm.group(1) if mm else '?')
            if r0.startswith('ASAN') and U.asan_key(r0) == key: continue      # already reported by the run on the default builder
            ctx.violation(key, 'generated parser %s (flags %d) on a fresh builder whose allocator moves every block it grows: %s on a %d-byte input' % (root, fl, m0[:220], n), replay)
            continue
        if m0.startswith(('CRASH', 'HANG')):
            if r0.startswith(('CRASH', 'HANG')): continue
            ctx.violation('crash:parse-moving', 'generated parser %s crashed or hung on the moving-allocator builder only: %s' % (root, m0[:300]), replay); continue
        if r0.startswith(('ASAN', 'CRASH', 'HANG')): continue
        a, b = m0.split(), r0.split()
        same = (a[:5] == b[:5]) if a[:1] == ['OK'] else (a[:6] == b[:6])
        if not same:
            ctx.violation('allocator-dependent-result', 'the same input gives `%s` on a fresh builder with a moving allocator and `%s` on the default builder (flags %d, root %s)' % (
                ' '.join(a[:6]), ' '.join(b[:6]), fl, root), replay)
    # ---- parser layer (Json/ParserModel.v, Properties_C04b): the generated table parsers' control flow as an interpreter; success =>
    # well-typed build script => verifier model accepts; tied here to the C parsers on the fragment roots + its own schema
    try:
        from . import c04b_util
        pm_cases = [(root, fl, fid, text, klass) for (klass, root, fl, fid, text) in cases if len(text) <= 5000]
        keep = [c for c in pm_cases if c[4] in ('hand', 'int-limits-in', 'int-limits-out', 'required-subsets')]
        pm_rest = [c for c in pm_cases if c[4] not in ('hand', 'int-limits-in', 'int-limits-out', 'required-subsets')]
        if len(pm_rest) > (20000 if ctx.thorough else 2500):
            pm_rest = ctx.rng.sample(pm_rest, 20000 if ctx.thorough else 2500)
        pm_cases = keep + pm_rest
        ctx.cov['parser_model'] = c04b_util.c04_hook(ctx, H, pm_cases, own_suite_docs=(400 if ctx.thorough else 60))
    except lib.CheckError:
        raise
    stat = {'ok': 0, 'err': 0}
    valid_ok = valid_n = 0
    ub_seen = {}
    beyond = {}
    # replies of <Root>_parse_json_as_root by (text, flags): what is specific to the schema-level entry point is what differs from them
    # (only twins built with the file identifier, as the schema-level entry always writes it: the identifier changes the layout)
    twin = {(c[4], c[2]): r_ for c, r_ in zip(cases, rep) if c[1] == 'Root' and c[3] == 1}
    for ci, ((klass, root, fl, fid, text), line, r) in enumerate(zip(cases, lines, rep)):
        ctx.count(line, klass='parse:' + klass)
        n = len(text)
        r, ub = U.split_ub(r)
        if klass == 'array-underfill' and r.startswith('ASAN'):
            ctx.violation('struct-array-underfill-overrun', 'zero padding of an underfilled fixed length array of structs writes outside the struct (%s, flags %d): %s on %r' % (root, fl, r[:160], text[:100]),
                          {'harness': 'json_scan_diff', 'harness_line': line, 'root': root, 'flags': fl, 'input_hex': U.hx(text), 'reply': r[:600]}); continue
        if klass == 'array-underfill' and r.startswith('OK') and len(r.split()) >= 6 and r.split()[3] == '0':
            raw = bytes.fromhex(r.split()[5]); ws = bool(fl & 4)
            got = U.read_geo(raw, ws) if root == 'Geo' else U.read_struct_root(raw, ws, root)
            want = expect[ci]
            if got != want:
                diff = [k for k in want if got is None or got.get(k) != want[k]]
                ctx.violation('struct-array-underfill-values', 'after parsing a fixed length array of structs given with fewer elements than declared, the finished %s buffer does not hold the values of the text '
                              '(members after the array must keep their values, padding elements read zero): differs in %s; text %r' % (root, diff, text[:160]),
                              {'harness': 'json_scan_diff', 'harness_line': line, 'root': root, 'flags': fl, 'input_hex': U.hx(text), 'expected': repr(want)[:1500], 'decoded': repr(got)[:1500]}); continue
        if ub:
            ub_seen.setdefault(ub, line if n < 600 else line[:120] + '...')
        replay = {'harness': 'json_scan_diff', 'harness_line': line if n < 4000 else line[:200] + '...', 'root': root, 'flags': fl, 'fid_mode': fid,
                  'input_len': n, 'input_hex': U.hx(text) if n < 4000 else U.hx(text[:64]) + '...(%d bytes: see generator class %s)' % (n, klass), 'reply': r[:600]}
        f = r.split()
        if klass == 'valid' and fl == 0:
            valid_n += 1; valid_ok += (f[:1] == ['OK'])
        if not f or f[0] not in ('OK', 'ERR'):
            if r.startswith('ASAN'):
                key = U.asan_key(r)
                if key.startswith('asan:flatcc_builder_') and re.search(rb'anys"?\s*:', text):
                    # the open offset vector of a truncated union vector: end_table then works on the wrong frame (reads AND writes out of bounds)
                    key = 'union-vector-unbalanced-accepted'
                ctx.violation(key, 'generated parser %s_parse_json_as_root, flags %d: %s on a %d-byte input' % (root, fl, r[:200], n), replay)
            elif r.startswith('HANG'):
                ctx.violation('hang:parse', 'generated parser %s did not return within 20 s (flags %d)' % (root, fl), replay)
            elif r.startswith('CRASH') and 'stack-overflow' in r and root.endswith('@schema'):
                ctx.violation('root-parse-json-no-nesting-limit', 'schema-level entry point <basename>_parse_json (%s) overflows the C stack on a %d-byte input nesting a known recursive table field: it opens the '
                              'buffer itself and never installs the nesting bound that <T>_parse_json_as_root installs: %s' % (root, n, r[:160]), replay)
            elif r.startswith('CRASH') and 'stack-overflow' in r:
                ctx.violation('deep-known-nesting-stack-overflow', 'generated parser %s overflows the C stack on %d-byte input nesting a known recursive table field (no nesting limit): %s' % (root, n, r[:160]), replay)
            else:
                ctx.violation('crash:parse:' + (re.sub(r'[^A-Za-z_:-]+', '_', r[:60])), 'generated parser %s crashed (flags %d): %s' % (root, fl, r[:300]), replay)
            continue
        if klass == 'float-at-end' and f[:1] in (['OK'], ['ERR']):
            # /repo refuses a number that runs to the end of the input (invalid_numeric); accepting it is not a violation by itself - reading behind
            # the input is, and that is what the `parset` differential above decides
            if f[0] == 'OK' or int(f[2]) != consts['JE_invalid_numeric']:
                beyond['float literal ending on the last byte of the input not refused with invalid_numeric'] = beyond.get('float literal ending on the last byte of the input not refused with invalid_numeric', 0) + 1
        # Behaviour the property does not constrain (C04 demands only: error located inside the input OR verifiable success): observed and logged in the
        # evidence, never a verdict.  (C05 demands acceptance of printer output and reports e.g. rejected type minima itself; the parser-layer model
        # tie below compares accept/reject with Json/ParserModel.v on its fragment.)
        if klass in ('int-limits-in', 'int-limits-out') and f[:1] in (['OK'], ['ERR']):
            if klass == 'int-limits-in' and f[0] != 'OK': beyond['in-range integer literal rejected'] = beyond.get('in-range integer literal rejected', 0) + 1
            if klass == 'int-limits-out' and f[0] == 'OK': beyond['out-of-range integer literal accepted'] = beyond.get('out-of-range integer literal accepted', 0) + 1
        if klass == 'array-overflow' and f[:1] in (['OK'], ['ERR']):
            if fl & 8 and f[0] != 'OK':
                k_ = 'skip_array_overflow set, overlong fixed length array rejected with error %s (README says extra elements are dropped; struct arrays: see fixes/C04-skip-array-overflow-struct-array.patch, proposed, outside C04)' % f[2]
                beyond[k_] = beyond.get(k_, 0) + 1
            if not (fl & 8) and f[0] == 'OK': beyond['overlong fixed length array accepted without skip_array_overflow'] = beyond.get('overlong fixed length array accepted without skip_array_overflow', 0) + 1
        if klass == 'required-subsets':
            # the property's own reading of `(required)`: a document lacking a required field must fail with error `required`, a complete one must parse
            need = {'Req': [b'"a"', b'"b"', b'"c"'], 'Sub': [b'"tag"']}[root]
            missing = [x.decode() for x in need if x + b':' not in text]
            if missing and f[0] == 'OK' and f[3] == '0': beyond['missing required field accepted by parser AND verifier'] = beyond.get('missing required field accepted by parser AND verifier', 0) + 1
            if missing and f[0] == 'OK' and f[3] != '0':
                ctx.violation('required-field-not-enforced', 'table %s parsed successfully although required field(s) %s are missing (verifier says %s)' % (root, ','.join(missing), f[3]), replay); continue
            if missing and int(f[2]) != consts['JE_required']: beyond['missing required field reported with another error code'] = beyond.get('missing required field reported with another error code', 0) + 1
            if not missing and f[0] != 'OK': beyond['document with all required fields rejected'] = beyond.get('document with all required fields rejected', 0) + 1
        if f[0] == 'OK':
            stat['ok'] += 1
            end_loc, size, vrc = int(f[1]), int(f[2]), int(f[3])
            if 'ASAN-IN-VERIFY' in r:
                ctx.violation('asan-in-verify', 'verifier over-read on a buffer produced by the parser: ' + r[:200], replay); continue
            if root.endswith('@schema') and end_loc == 0 and n > 0:
                beyond['<basename>_parse_json leaves end_loc at the start of the input after a successful parse'] = beyond.get('<basename>_parse_json leaves end_loc at the start of the input after a successful parse', 0) + 1
            if not (0 <= end_loc <= n):
                ctx.violation('prop:end_loc', 'successful parse with end_loc %d outside the %d-byte input' % (end_loc, n), replay); continue
            if vrc == -2:
                ctx.violation('verifier-timeout' + (':deep-known' if klass.startswith('deep-known') else ''),
                              'parse of %s succeeded (%d-byte buffer) but the generated verifier did not return within 3 s' % (root, size), replay)
            elif vrc != 0:
                ws = bool(fl & 4)
                tw = twin.get((text, fl), '').split()
                nested_bytes = re.search(rb'nest(_s|64)?"?\s*:\s*[\["]', text) is not None       # known findings nested-bytes-*: layout dependent, classified below
                if root.endswith('@schema') and ws and not nested_bytes and tw[:1] == ['OK'] and len(tw) > 3 and tw[3] == '0':
                    ctx.violation('root-parse-json-ignores-with-size', 'schema-level entry point <basename>_parse_json (%s) called with flatcc_json_parser_f_with_size succeeds, but the buffer has no size prefix '
                                  '(start_buffer is called with flags 0): *_verify_as_root_with_size rejects it with %d, while the buffer of <Root>_parse_json_as_root for the same text and flags verifies' % (root, vrc), replay)
                elif root in ('Pt', 'Fix') and ws:
                    ctx.violation('verify-reject:struct-root-with-size', 'parse of struct root %s with flatcc_json_parser_f_with_size succeeded but %s_verify_as_root_with_size rejects the buffer with error %d' % (root, root, vrc), replay)
                elif re.search(rb'nest_s"?\s*:\s*\{', text):
                    ctx.violation('nested-struct-root-object', 'nested_flatbuffer field with a struct root given as a JSON object: parse succeeded, verifier rejects with %d' % vrc, replay)
                elif re.search(rb'nest(_s|64)?"?\s*:\s*[\["]', text) and klass.startswith(('valid', 'all-flags', 'unknown-fields')):
                    ctx.violation('nested-bytes-unaligned', 'nested_flatbuffer field given as the bytes of a valid buffer (byte array / base64): parse succeeded, but the ubyte vector is only 4-byte aligned and the verifier rejects the nested buffer with %d' % vrc, replay)
                elif re.search(rb'nest(_s|64)?"?\s*:\s*[\["]', text):
                    ctx.violation('nested-bytes-unverified', 'nested_flatbuffer field given as raw bytes that are not a valid buffer: parse succeeded, verifier rejects the result with %d' % vrc, replay)
                elif re.search(rb'anys"?\s*:', text) and not klass.startswith('valid') and vrc == 13 and text.count(b'[') > text.count(b']'):
                    ctx.violation('union-vector-unbalanced-accepted', 'input ending inside a union vector is reported as success; the offset vector is left open and the verifier rejects the result with %d' % vrc, replay)
                elif root.endswith('@schema') and ws:
                    ctx.violation('root-parse-json-ignores-with-size', 'schema-level entry point <basename>_parse_json (%s) called with flatcc_json_parser_f_with_size succeeds, but the buffer has no size prefix '
                                  '(start_buffer is called with flags 0): *_verify_as_root_with_size rejects it with %d' % (root, vrc), replay)
                elif root.endswith('@schema') and klass.startswith('deep'):
                    ctx.violation('root-parse-json-no-nesting-limit', 'schema-level entry point <basename>_parse_json (%s) reports success on %d-byte input nesting a known recursive field, but the generated verifier '
                                  'rejects the finished buffer with %d: it never installs the nesting bound that <T>_parse_json_as_root installs' % (root, n, vrc), replay)
                elif klass.startswith('deep-known'):
                    ctx.violation('deep-known-nesting-verify-reject', 'parse of %s succeeded but the generated verifier rejects the finished buffer with %d (nesting of a known recursive field deeper than the verifier accepts)' % (root, vrc), replay)
                else:
                    ctx.violation('verify-reject:%s%s' % (root, ':with_size' if ws else ''), 'parse of %s (flags %d) succeeded but the generated verifier%s rejects the finished %d-byte buffer with error %d' % (
                        root, fl, ' (with_size)' if ws else '', size, vrc), replay)
        else:
            stat['err'] += 1
            rc, err, loc = int(f[1]), int(f[2]), int(f[3])
            if rc == 0 or (rc != err and rc != -1):
                ctx.violation('prop:rc', 'failed parse: return value %d, ctx.error %d' % (rc, err), replay); continue
            if not (0 <= loc <= n):
                ctx.violation('prop:error_loc', 'failed parse: error %d with error_loc %d outside the %d-byte input' % (err, loc, n), replay); continue
            if 'REUSE-ASAN' in r:
                ctx.violation('reuse:' + U.asan_key(r[r.index('REUSE-ASAN') + 6:]), 'sanitizer report while rebuilding on the reset builder after a failed parse: ' + r[:240], replay); continue
            if f[-2:] != ['REUSE', '0']:
                ctx.violation('reuse-after-failure', 'after a failed parse (error %d) and flatcc_builder_reset the reference build %s' % (
                    err, 'failed' if f[-1] == '2' else 'differs from the bytes a fresh builder produces'), replay)
    for ub, l in sorted(ub_seen.items()):
        kind = ub.split('@')[0]
        if any(kind.startswith(k) or k in kind for k in U.UB_BENIGN) or 'shift' in kind or 'overflow' in kind:
            ctx.notes.append('undefined behaviour (UBSan, no memory access involved, not counted as a C04 violation): %s first seen on `%s`' % (ub, l[:200]))
        else:
            ctx.violation('ubsan:' + ub, 'UBSan report %s in a generated parser' % ub, {'harness': 'json_scan_diff', 'harness_line': l})
    for k_, n_ in sorted(beyond.items()):
        ctx.notes.append('observed, not constrained by C04 (no verdict): %s - %d case(s)' % (k_, n_))
    ctx.cov['beyond_property_observations'] = beyond
    # the struct-root schema through both of its entry points (second executable)
    if H2 is not None:
        sdocs = [b'{"x":1,"y":2,"name":"ab","p":[1,2]}', b'{}', b'{"x":-2147483648}', b'{"name":"abcd"}', b'{"name":"abcde"}', b'{"name":"abc\\n"}', b'{"p":[1]}', b'{"p":[1,2,3]}', b'{"x":1', b'{"x":1.',
                 b'{"zz":{"a":', b'{"zz":[1,{"a":1}],"y":3}', b'', b'[]', b'{"x":"q"}', b'{"y":32768}', b' { "x" : 5 } ', b'{"x":1,}']
        scases = [(root, fl, d) for d in sdocs for root in ('SPt', 'SPt@schema') for fl in (0, 1, 4, 8, 16, 31)]
        for d in sdocs[:6]:
            for _ in range(20 if T else 6):
                m = U.mutate(rng, d)
                for root in ('SPt', 'SPt@schema'): scases.append((root, rng.choice(allflags), m))
        slines = ['parse %s %d 0 0 %s' % (root, fl, U.hx(d)) for root, fl, d in scases]      # fid mode 0: SPt@schema writes the schema's own identifier C4SR
        srep = U.run_resilient(H2, slines)
        for (root, fl, d), sl, sr in zip(scases, slines, srep):
            ctx.count(sl, klass='parse:struct-root-schema')
            sr, _ub = U.split_ub(sr)
            replay = {'harness': 'json_scan_diff_sroot', 'harness_line': sl, 'root': root, 'flags': fl, 'input_hex': U.hx(d), 'reply': sr[:400]}
            f = sr.split()
            if f[:1] not in (['OK'], ['ERR']):
                ctx.violation('struct-root-schema:' + (U.asan_key(sr) if sr.startswith('ASAN') else 'crash'), 'struct-root schema entry point %s (flags %d): %s' % (root, fl, sr[:200]), replay); continue
            if f[0] == 'OK':
                if not (0 <= int(f[1]) <= len(d)): ctx.violation('prop:end_loc', 'successful parse with end_loc %s outside the input' % f[1], replay)
                elif f[3] != '0':
                    key = 'root-parse-json-ignores-with-size' if (root.endswith('@schema') and fl & 4) else 'verify-reject:%s' % root
                    ctx.violation(key, 'struct-root entry point %s (flags %d) succeeds but the generated verifier%s rejects the buffer with %s' % (root, fl, ' (with_size)' if fl & 4 else '', f[3]), replay)
            else:
                if not (0 <= int(f[3]) <= len(d)): ctx.violation('prop:error_loc', 'failed parse: error_loc %s outside the input' % f[3], replay)
                elif f[-2:] != ['REUSE', '0']: ctx.violation('reuse-after-failure', 'struct-root schema: reference build after a failed parse differs / failed', replay)
    ctx.notes.append('whole parsers: %d succeeded (all verified unless reported), %d failed (error_loc in range, builder reuse checked); %d/%d documents rendered from value trees parsed under flags 0' % (
        stat['ok'], stat['err'], valid_ok, valid_n))
    if valid_n and valid_ok * 10 < valid_n * 9:
        ctx.broken_obligation('generator-validity', 'only %d of %d documents rendered from value trees were accepted: the generator no longer matches the schema/parser' % (valid_ok, valid_n))
    ctx.sample({'parse_request': lines[0][:200], 'reply': rep[0]})
    ctx.sample({'parse_request': lines[-1][:200], 'reply': rep[-1]})

    ctx.trusted = lib.DEFAULT_TRUSTED + ['translators/json_probe.c (T1: JSON error codes, flags, configuration switches from /repo headers)',
                                         'AddressSanitizer in recover mode with a report callback (harness/json_scan_diff.c) as the observer of out-of-bounds reads']
    ctx.assumptions = ['default parser configuration (unquoted keys allowed, trailing comma allowed, no wide space, no SSE4.2), plain char signed, little-endian host',
                       'grisu3 float parsing is not modelled: its reads are observed by ASan only',
                       'generated parser control flow is not modelled: whole-parser clauses are decided by observation on gen/c04_schema.fbs']
    ctx.finish_args = dict(
        rule='scanner primitives: hand-made token classes (numbers x terminators, strings/escapes/surrogates, white space runs 0..40 incl. the 16-byte block, symbols, '
             'constants), every truncation of them, value-tree documents, token mutations, random JSON-alphabet bytes, nesting 510..514; each at several positions, flags and '
             'quoted/unquoted mode. whole parsers: documents rendered from value trees (7 root types incl. struct roots) x flag subsets, injected unknown fields, every truncation, '
             'token mutations, values ending exactly at end for 42 field contexts x 41 tails, deep nesting of unknown (510..514) and known fields, hand-made corner cases, random bytes. '
             'distinct = distinct request lines; all reach the code under test',
        explanation='theorems of Properties_C04 re-checked; extracted scanner model compared with /repo on every primitive request; whole parsers checked against the property statement '
                    '(ASan, alarm, verifier verdict, error_loc range, builder reuse)')
